//! Plain replays of the violations found by the explorer, through the public API only and judged
//! on indicatif's own `InMemoryTerm` (vt100), i.e. without the harness's terminal model.
//! Each test asserts the behaviour the property demands; it fails on a tree with the defect.

use indicatif::{InMemoryTerm, ProgressBar, ProgressDrawTarget, ProgressStyle};

fn bar(term: &InMemoryTerm, template: &str) -> ProgressBar {
    ProgressBar::with_draw_target(Some(5), ProgressDrawTarget::term_like(Box::new(term.clone())))
        .with_style(ProgressStyle::with_template(template).unwrap())
}

/// C01/C03 (F4): a frame whose first line is empty, drawn after a text-only draw, must not overlap
/// the printed line, and the next redraw must not erase it.
#[test]
fn c01_text_only_draw_then_frame_with_empty_first_line() {
    let term = InMemoryTerm::new(10, 20);
    let pb = bar(&term, "{msg}\n{pos}/{len}");
    pb.finish_and_clear();
    pb.println("log1");
    pb.reset();
    pb.tick();
    assert_eq!(term.contents(), "log1\n\n0/5");
    pb.tick();
    assert_eq!(term.contents(), "log1\n\n0/5");
}

#[test]
fn c01_println_then_message_starting_with_newline() {
    let term = InMemoryTerm::new(10, 20);
    let pb = bar(&term, "{msg}");
    pb.println("log1");
    pb.set_message("\nx");
    assert_eq!(term.contents(), "log1\n\nx");
    pb.set_message("y");
    assert_eq!(term.contents(), "log1\ny");
}

use indicatif::{MultiProgress, MultiProgressAlignment, ProgressFinish};

fn multi(term: &InMemoryTerm) -> MultiProgress {
    MultiProgress::with_draw_target(ProgressDrawTarget::term_like(Box::new(term.clone())))
}

fn member(mp: &MultiProgress, name: &str, fin: ProgressFinish) -> ProgressBar {
    mp.add(
        ProgressBar::with_draw_target(Some(5), ProgressDrawTarget::hidden())
            .with_style(ProgressStyle::with_template("{prefix}:{msg}").unwrap())
            .with_prefix(name.to_string())
            .with_finish(fin),
    )
}

/// C03 (F1): rows of zombies reaped *during* a println draw were cleared twice, erasing the
/// line above the region.
#[test]
fn c03_println_after_two_finished_bars_dropped_keeps_earlier_output() {
    let term = InMemoryTerm::new(10, 20);
    let mp = multi(&term);
    let a = member(&mp, "a", ProgressFinish::AndLeave);
    let b = member(&mp, "b", ProgressFinish::AndLeave);
    let c = member(&mp, "c", ProgressFinish::AndLeave);
    a.tick();
    b.tick();
    c.tick();
    b.finish();
    drop(b);
    a.suspend(|| {
        use indicatif::TermLike;
        term.write_line("T0").unwrap();
    });
    drop(a);
    mp.println("L1").unwrap();
    let s = term.contents();
    assert!(s.starts_with("T0\n"), "suspend output erased: {s:?}");
    assert!(s.contains("L1"), "{s:?}");
}

/// C03 (F3): text printed through a member bar below reaped rows was erased by a later clear.
#[test]
fn c03_bar_println_after_zombie_survives_clear() {
    let term = InMemoryTerm::new(10, 20);
    let mp = multi(&term);
    let a = member(&mp, "a", ProgressFinish::AndLeave);
    let b = member(&mp, "b", ProgressFinish::AndLeave);
    a.tick();
    b.tick();
    drop(a);
    b.println("P0");
    mp.clear().unwrap();
    assert!(term.contents().contains("P0"), "{:?}", term.contents());
}

/// C03 (F2): with an exhausted limiter every refused draw counted the pending zombies again;
/// the next println erased that many lines above the region.
#[test]
fn c03_refused_draws_do_not_inflate_zombie_rows() {
    let term = InMemoryTerm::new(10, 20);
    let mp = MultiProgress::with_draw_target(ProgressDrawTarget::term_like_with_hz(Box::new(term.clone()), 1));
    mp.println("L0").unwrap();
    mp.println("L1").unwrap();
    mp.println("L2").unwrap();
    let a = member(&mp, "a", ProgressFinish::AndLeave);
    let b = member(&mp, "b", ProgressFinish::AndLeave);
    a.tick();
    b.tick();
    for _ in 0..25 {
        a.tick(); // exhaust the limiter
    }
    drop(b);
    drop(a);
    let c = member(&mp, "c", ProgressFinish::AndLeave);
    c.tick();
    c.tick();
    c.tick();
    mp.println("L3").unwrap();
    let s = term.contents();
    assert!(s.starts_with("L0\nL1\nL2\n"), "log lines erased: {s:?}");
}

/// C03 (F5): under bottom alignment `clear` padded with blank rows and counted them, so the
/// output of a suspend closure was written below the padding and erased by the redraw.
#[test]
fn c03_suspend_output_survives_bottom_alignment() {
    let term = InMemoryTerm::new(10, 20);
    let mp = multi(&term);
    mp.set_alignment(MultiProgressAlignment::Bottom);
    let a = member(&mp, "a", ProgressFinish::AndLeave);
    let b = member(&mp, "b", ProgressFinish::AndLeave);
    a.tick();
    b.tick();
    mp.suspend(|| {
        use indicatif::TermLike;
        term.write_line("out1").unwrap();
    });
    assert!(term.contents().contains("out1"), "{:?}", term.contents());
}

fn member2(mp: &MultiProgress, name: &str, fin: ProgressFinish) -> ProgressBar {
    mp.add(
        ProgressBar::with_draw_target(Some(5), ProgressDrawTarget::hidden())
            .with_style(ProgressStyle::with_template("{prefix}:{msg}\n{prefix}+{pos}").unwrap())
            .with_prefix(name.to_string())
            .with_finish(fin),
    )
}

/// C02: a reaped two-line bar was half erased when text was printed after the live region
/// had become empty (row count applied one row too low).
#[test]
fn c02_zombie_rows_are_not_half_erased() {
    let term = InMemoryTerm::new(10, 20);
    let mp = multi(&term);
    let a = member2(&mp, "a", ProgressFinish::WithMessage("fin".into()));
    let b = member2(&mp, "b", ProgressFinish::AndLeave);
    a.tick();
    b.tick();
    drop(a);
    b.finish_and_clear();
    b.println("P0");
    let s = term.contents();
    assert!(s == "P0" || s == "a:fin\na+5\nP0", "half-erased static rows: {s:?}");
}

/// C03: dropping a finished bar after `clear()` counted its (no longer visible) rows as zombie
/// rows; the next clear/println erased that many printed lines.
#[test]
fn c03_drop_after_clear_does_not_erase_log_lines() {
    let term = InMemoryTerm::new(10, 20);
    let mp = multi(&term);
    mp.println("L0").unwrap();
    mp.println("L1").unwrap();
    mp.println("L2").unwrap();
    let a = member2(&mp, "a", ProgressFinish::AndLeave);
    let b = member2(&mp, "b", ProgressFinish::AndLeave);
    a.tick();
    b.tick();
    a.finish();
    mp.clear().unwrap();
    drop(a);
    mp.clear().unwrap();
    assert!(term.contents().starts_with("L0\nL1\nL2"), "{:?}", term.contents());
}

/// C02: a removed bar's row stayed on screen for ever when a finished head bar was dropped
/// between the removal and the next draw.
#[test]
fn c02_removed_bar_disappears() {
    let term = InMemoryTerm::new(10, 20);
    let mp = multi(&term);
    let a = member(&mp, "a", ProgressFinish::AndLeave);
    let b = member(&mp, "b", ProgressFinish::AndLeave);
    let c = member(&mp, "c", ProgressFinish::AndLeave);
    a.tick();
    b.tick();
    b.finish();
    mp.remove(&a);
    drop(b);
    c.tick();
    assert!(!term.contents().contains("a:"), "{:?}", term.contents());
}

/// C19/C03 (F19): when no bar fits into the terminal height, the painted part of a println draw
/// ends with the text line; it was left unterminated and the next line was appended to it.
#[test]
fn c19_println_with_overflowing_bar_keeps_lines_apart() {
    let term = InMemoryTerm::new(3, 8);
    let mp = multi(&term);
    let a = member(&mp, "a", ProgressFinish::AndLeave);
    a.set_message("q".repeat(30)); // 4 rows > 3
    mp.println("log1").unwrap();
    mp.println("log2").unwrap();
    let s = term.contents();
    assert!(s.starts_with("log1\nlog2"), "{s:?}");
}

fn render_one(template: &str, msg: &str) -> String {
    let term = InMemoryTerm::new(10, 80);
    let pb = bar(&term, template);
    pb.set_message(msg.to_string());
    term.contents()
}

/// C10 (F9): a width beyond u16::MAX must be an error, not a panic.
#[test]
fn c10_width_overflow_is_an_error() {
    assert!(ProgressStyle::with_template("{pos:65536}").is_err());
    assert!(ProgressStyle::with_template("{pos:65535}").is_ok());
}

/// C10 (F10): literal text before `{`+whitespace keeps its place.
#[test]
fn c10_literal_before_brace_whitespace() {
    assert_eq!(render_one("ab{ cd {pos} }}", ""), "ab{ cd 0 }");
}

/// C12 (F11): truncation counts columns, not bytes.
#[test]
fn c12_truncation_by_columns() {
    assert_eq!(render_one("|{msg:5!}|", "héllo wörld"), "|héllo|");
    assert_eq!(render_one("|{msg:>5!}|", "héllo wörld"), "|wörld|");
    assert_eq!(render_one("|{msg:4!}|", "日本語テキスト"), "|日本|");
}

/// C15 (F14): rounding at precision 0 and negative values.
#[test]
fn c15_human_float_count() {
    use indicatif::HumanFloatCount;
    assert_eq!(format!("{:.0}", HumanFloatCount(1234.9)), "1,235");
    assert_eq!(format!("{}", HumanFloatCount(-123456.0)), "-123,456");
    assert_eq!(format!("{}", HumanFloatCount(-999.9995)), "-999.9995");
}

/// C14 (F12, F13): unrenderable styles are rejected when built.
#[test]
fn c14_builder_rejects_unrenderable_styles() {
    let r = std::panic::catch_unwind(|| ProgressStyle::default_spinner().tick_strings(&["a"]));
    assert!(r.is_err(), "tick_strings with one string must be rejected when the style is built");
    let r = std::panic::catch_unwind(|| ProgressStyle::default_bar().progress_chars("\u{200b}\u{200b}"));
    assert!(r.is_err(), "zero-width progress chars must be rejected when the style is built");
}

/// C09 (F8): reset() makes the estimator forget the old position.
#[test]
fn c09_reset_forgets_previous_position() {
    let pb = ProgressBar::with_draw_target(Some(1_000_000), ProgressDrawTarget::hidden());
    pb.set_position(200);
    pb.reset();
    std::thread::sleep(std::time::Duration::from_millis(30));
    pb.inc(100);
    assert!(pb.per_sec() > 0.0, "progress after reset() must be measured from 0, not from the old position");
}

#[derive(Debug)]
struct FailingTerm;
impl indicatif::TermLike for FailingTerm {
    fn width(&self) -> u16 {
        80
    }
    fn move_cursor_up(&self, _: usize) -> std::io::Result<()> {
        Err(std::io::Error::new(std::io::ErrorKind::Other, "boom"))
    }
    fn move_cursor_down(&self, _: usize) -> std::io::Result<()> {
        Err(std::io::Error::new(std::io::ErrorKind::Other, "boom"))
    }
    fn move_cursor_right(&self, _: usize) -> std::io::Result<()> {
        Err(std::io::Error::new(std::io::ErrorKind::Other, "boom"))
    }
    fn move_cursor_left(&self, _: usize) -> std::io::Result<()> {
        Err(std::io::Error::new(std::io::ErrorKind::Other, "boom"))
    }
    fn write_line(&self, _: &str) -> std::io::Result<()> {
        Err(std::io::Error::new(std::io::ErrorKind::Other, "boom"))
    }
    fn write_str(&self, _: &str) -> std::io::Result<()> {
        Err(std::io::Error::new(std::io::ErrorKind::Other, "boom"))
    }
    fn clear_line(&self) -> std::io::Result<()> {
        Err(std::io::Error::new(std::io::ErrorKind::Other, "boom"))
    }
    fn flush(&self) -> std::io::Result<()> {
        Err(std::io::Error::new(std::io::ErrorKind::Other, "boom"))
    }
}

/// C18 (F18): terminal failures never panic or poison.
#[test]
fn c18_io_errors_do_not_panic_or_poison() {
    let pb = ProgressBar::with_draw_target(Some(5), ProgressDrawTarget::term_like(Box::new(FailingTerm)));
    pb.set_tab_width(4);
    pb.inc(1);
    assert_eq!(pb.position(), 1);
    let mp = MultiProgress::with_draw_target(ProgressDrawTarget::term_like(Box::new(FailingTerm)));
    let a = mp.add(ProgressBar::new(5));
    a.tick();
    mp.suspend(|| ());
    a.suspend(|| ());
    a.inc(1);
    assert!(mp.println("x").is_err());
}

/// C03: under bottom alignment, after every bar was finished-and-cleared (an empty, padded frame)
/// the next printed lines must all stay on screen.
#[test]
fn c03_bottom_alignment_empty_frame_then_println() {
    let term = InMemoryTerm::new(12, 20);
    let mp = multi(&term);
    mp.set_alignment(MultiProgressAlignment::Bottom);
    let a = member(&mp, "a", ProgressFinish::AndLeave);
    let b = member(&mp, "b", ProgressFinish::AndLeave);
    let c = member(&mp, "c", ProgressFinish::AndLeave);
    a.tick();
    b.tick();
    c.tick();
    a.finish_and_clear();
    b.finish_and_clear();
    c.finish_and_clear();
    mp.println("log 1").unwrap();
    mp.println("log 2").unwrap();
    mp.println("log 3").unwrap();
    let s = term.contents();
    assert!(s.contains("log 1") && s.contains("log 2") && s.contains("log 3"), "{s:?}");
}

/// C01/C19: a line of double-width characters on a terminal with an odd number of columns wraps
/// earlier than `columns / width` suggests; all of its rows must be erased by the next redraw.
#[test]
fn c19_double_width_text_wraps_character_by_character() {
    let term = InMemoryTerm::new(12, 5);
    let pb = bar(&term, "{msg}");
    pb.set_message("日本語日本語"); // 12 columns: 2 characters per 5-column row -> 3 rows
    assert_eq!(term.contents(), "日本\n語日\n本語");
    pb.set_message("x");
    assert_eq!(term.contents(), "x");
}

/// C04/C02: under bottom alignment a visibly finished, dropped bar keeps its final line although
/// blank padding lines sit above it.
#[test]
fn c04_bottom_alignment_keeps_finished_bar() {
    let term = InMemoryTerm::new(12, 20);
    let mp = multi(&term);
    mp.println("log").unwrap();
    mp.set_alignment(MultiProgressAlignment::Bottom);
    let a = member(&mp, "a", ProgressFinish::AndLeave);
    let b = member(&mp, "b", ProgressFinish::AndLeave);
    a.tick();
    b.tick();
    b.finish_and_clear();
    drop(a);
    b.tick();
    assert!(term.contents().contains("a:"), "{:?}", term.contents());
}

/// C09: progress the estimator has not sampled (increments swallowed by the position rate limiter)
/// must not be attributed to the first sample after reset_eta().
#[test]
fn c09_reset_eta_forgets_unsampled_progress() {
    let pb = ProgressBar::with_draw_target(Some(1_000_000_000), ProgressDrawTarget::hidden());
    std::thread::sleep(std::time::Duration::from_millis(20));
    for _ in 0..200 {
        pb.inc(1000); // far more than 10 updates per millisecond: most are not sampled
    }
    pb.reset_eta();
    std::thread::sleep(std::time::Duration::from_millis(100));
    pb.inc(1);
    assert!(pb.per_sec() <= 100.0, "one step in 0.1 s after reset_eta() is reported as {} steps/s", pb.per_sec());
}

/// C09: a backwards seek that ends above the last position the estimator sampled restarts the estimate.
#[test]
fn c09_backwards_seek_above_the_last_sampled_position() {
    let pb = ProgressBar::with_draw_target(Some(1_000_000_000), ProgressDrawTarget::hidden());
    std::thread::sleep(std::time::Duration::from_millis(20));
    for _ in 0..200 {
        pb.inc(1000);
    }
    std::thread::sleep(std::time::Duration::from_millis(50));
    assert_eq!(pb.position(), 200_000);
    pb.set_position(150_000);
    assert_eq!(pb.per_sec(), 0.0, "a backwards seek is reported as progress");
}

/// C13/C12: a brace that stands for itself before a line break must not make the wide element of its
/// line count the following template lines.
#[test]
fn c13_wide_bar_before_brace_and_line_break() {
    let term = InMemoryTerm::new(10, 20);
    let pb = bar(&term, "{wide_bar}{\nab");
    pb.tick();
    assert_eq!(term.contents(), format!("{}{{\nab", "░".repeat(19)));
}

/// C09: dec() to a position above the last one the estimator sampled restarts the estimate as well.
#[test]
fn c09_dec_above_the_last_sampled_position() {
    let pb = ProgressBar::with_draw_target(Some(1_000_000_000), ProgressDrawTarget::hidden());
    std::thread::sleep(std::time::Duration::from_millis(20));
    for _ in 0..200 {
        pb.inc(1000);
    }
    std::thread::sleep(std::time::Duration::from_millis(50));
    pb.dec(50_000);
    assert_eq!(pb.position(), 150_000);
    assert_eq!(pb.per_sec(), 0.0, "a backwards move is reported as progress");
}

/// C03: static lines of finished bars left on another terminal must not be cleared from this one.
#[test]
fn c03_set_draw_target_forgets_zombie_lines_of_the_old_target() {
    let t = InMemoryTerm::new(10, 20);
    let u = InMemoryTerm::new(10, 20);
    let mp = MultiProgress::with_draw_target(ProgressDrawTarget::term_like(Box::new(t.clone())));
    mp.println("L0").unwrap();
    mp.println("L1").unwrap();
    mp.set_draw_target(ProgressDrawTarget::term_like(Box::new(u.clone())));
    let b = mp.add(ProgressBar::new(5).with_style(ProgressStyle::with_template("{prefix}:{pos}\n+").unwrap()).with_prefix("b").with_finish(ProgressFinish::AndLeave));
    b.tick();
    b.finish();
    drop(b);
    mp.set_draw_target(ProgressDrawTarget::term_like(Box::new(t.clone())));
    mp.println("L2").unwrap();
    assert_eq!(t.contents(), "L0\nL1\nL2");
}

/// C09: the position a bar starts out at (with_position) is not progress.
#[test]
fn c09_with_position_is_not_progress() {
    let pb = ProgressBar::with_draw_target(Some(1_000_000_000), ProgressDrawTarget::hidden()).with_position(500_000_000);
    std::thread::sleep(std::time::Duration::from_millis(100));
    pb.inc(100);
    assert!(pb.per_sec() < 10_000.0, "100 steps in 0.1 s reported as {} steps/s", pb.per_sec());
}

/// C19: after a draw that stopped at the terminal height, bars whose rows all became static must not be
/// followed by the next bar on the same row.
#[test]
fn c19_height_limited_draw_then_all_rows_static() {
    let term = InMemoryTerm::new(2, 10);
    let mp = multi(&term);
    let a = member(&mp, "a", ProgressFinish::AndLeave);
    let b = member(&mp, "b", ProgressFinish::AndLeave);
    let c = member(&mp, "c", ProgressFinish::AndLeave);
    a.tick();
    b.tick();
    c.tick();
    a.finish();
    b.finish();
    drop(a);
    drop(b);
    c.tick();
    assert_eq!(term.contents(), "b:\nc:");
}

/// C19: static lines of a finished bar that were pushed out of the top of the terminal are not erased in
/// part by a later println.
#[test]
fn c19_println_after_zombie_rows_scrolled_out() {
    let term = InMemoryTerm::new(4, 4);
    let mp = multi(&term);
    let a = member(&mp, "a", ProgressFinish::AndLeave);
    let b = member(&mp, "b", ProgressFinish::AndLeave);
    let c = member(&mp, "c", ProgressFinish::AndLeave);
    a.tick();
    b.tick();
    c.tick();
    a.finish_with_message("done"); // "a:done" takes two rows of four columns
    drop(a);
    let d = member(&mp, "d", ProgressFinish::AndLeave);
    d.tick(); // four rows are needed below "a:do": it scrolls out
    assert_eq!(term.contents(), "ne\nb:\nc:\nd:");
    c.finish_and_clear();
    d.finish_and_clear();
    mp.println("L0").unwrap();
    assert_eq!(term.contents(), "ne\nL0\nb:");
}

/// C09: the average rate reported for a finished (abandoned) bar does not count the position it started at.
#[test]
fn c09_abandoned_bar_that_started_at_a_position() {
    let pb = ProgressBar::with_draw_target(Some(1_000_000_000), ProgressDrawTarget::hidden()).with_position(500_000_000);
    std::thread::sleep(std::time::Duration::from_millis(100));
    pb.inc(100);
    pb.abandon();
    assert!(pb.per_sec() < 10_000.0, "100 steps in 0.1 s reported as {} steps/s", pb.per_sec());
}

/// C04: a live bar whose first template line is empty must not erase the static line of a finished,
/// dropped bar above it.
#[test]
fn c04_empty_first_line_below_static_rows() {
    let term = InMemoryTerm::new(10, 20);
    let mp = multi(&term);
    let a = mp.add(ProgressBar::with_draw_target(Some(5), ProgressDrawTarget::hidden()).with_style(ProgressStyle::with_template("a:{pos}").unwrap()).with_finish(ProgressFinish::AndLeave));
    let b = mp.add(ProgressBar::with_draw_target(Some(5), ProgressDrawTarget::hidden()).with_style(ProgressStyle::with_template("{msg}\nb:{pos}").unwrap()));
    a.tick();
    a.finish();
    drop(a);
    b.tick();
    b.tick();
    assert_eq!(term.contents(), "a:5\n\nb:0");
}
