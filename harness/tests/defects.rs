//! Plain replays of the violations found by the explorer, through the public API only and judged
//! on indicatif's own `InMemoryTerm` (vt100), i.e. without the harness's terminal model.
//! Each test asserts the behaviour the property demands; it fails on a tree with the defect.

use indicatif::{InMemoryTerm, ProgressBar, ProgressDrawTarget, ProgressStyle};

fn bar(term: &InMemoryTerm, template: &str) -> ProgressBar {
    ProgressBar::with_draw_target(Some(5), ProgressDrawTarget::term_like(Box::new(term.clone())))
        .with_style(ProgressStyle::with_template(template).unwrap())
}

/// C01/C03 (F4): a frame whose first line is empty, drawn after a text-only draw, must not overlap
/// the printed line, and the next redraw must not erase it.
#[test]
fn c01_text_only_draw_then_frame_with_empty_first_line() {
    let term = InMemoryTerm::new(10, 20);
    let pb = bar(&term, "{msg}\n{pos}/{len}");
    pb.finish_and_clear();
    pb.println("log1");
    pb.reset();
    pb.tick();
    assert_eq!(term.contents(), "log1\n\n0/5");
    pb.tick();
    assert_eq!(term.contents(), "log1\n\n0/5");
}

#[test]
fn c01_println_then_message_starting_with_newline() {
    let term = InMemoryTerm::new(10, 20);
    let pb = bar(&term, "{msg}");
    pb.println("log1");
    pb.set_message("\nx");
    assert_eq!(term.contents(), "log1\n\nx");
    pb.set_message("y");
    assert_eq!(term.contents(), "log1\ny");
}
