//! C02/C04 — bars handed from one MultiProgress to another (two MultiProgress objects, two terminals).
//!
//! Histories over {add a bar to A, add a bar to B, hand A's oldest bar over to B (`B.add(bar)`), tick every
//! bar of B, tick every bar of A, finish B's oldest bar, println on B}.  Oracle, after every operation that
//! draws on B's terminal: each bar that belongs to B - the ones added there and the ones handed over - is on
//! it exactly once, in the order in which they joined, below B's printed lines (C02); a bar finished on B
//! shows its final state there (C04).  A's terminal: a bar that was handed over is no longer painted there
//! once A has drawn again.

use crate::report::{hash_of, Dfs, Hist, Shard, Stats, Verdict, Violation};
use crate::term::Spy;
use crate::util::{catch, panic_class};
use crate::{clock, Tier};
use indicatif::{MultiProgress, ProgressBar, ProgressDrawTarget, ProgressFinish, ProgressStyle};

#[derive(Clone, Debug, PartialEq)]
pub enum Op {
    AddA,
    AddB,
    MoveAtoB,
    TickB,
    TickA,
    FinishFirstB,
    PrintlnB,
}

pub struct C02y {
    /// "C02" or "C04": which clause is judged
    pub prop: &'static str,
}

fn mk(name: &str) -> ProgressBar {
    ProgressBar::with_draw_target(Some(5), ProgressDrawTarget::hidden()).with_style(ProgressStyle::with_template("{prefix}:{pos}").unwrap()).with_prefix(name.to_string()).with_finish(ProgressFinish::AndLeave)
}

impl Hist for C02y {
    type Op = Op;

    fn alphabet(&self, _p: &[Op]) -> Vec<Op> {
        vec![Op::AddA, Op::AddB, Op::MoveAtoB, Op::TickB, Op::TickA, Op::FinishFirstB, Op::PrintlnB]
    }

    fn run(&self, hist: &[Op], stats: &mut Stats) -> Verdict {
        clock::reset();
        let (ta, tb) = (Spy::new(20, 30, false), Spy::new(20, 30, false));
        let a = MultiProgress::with_draw_target(ProgressDrawTarget::term_like(ta.boxed()));
        let b = MultiProgress::with_draw_target(ProgressDrawTarget::term_like(tb.boxed()));
        // (name, handle) in joining order
        let mut in_a: Vec<(String, ProgressBar)> = vec![];
        let mut in_b: Vec<(String, ProgressBar)> = vec![];
        let mut finished_b: Vec<String> = vec![];
        let mut logs_b: Vec<String> = vec![];
        let mut moved: Vec<String> = vec![];
        let mut n = 0usize;
        let shown: Vec<String> = hist.iter().map(|o| format!("{:?}", o)).collect();
        let mut drew_b = false;
        let mut drew_a = false;
        for (i, op) in hist.iter().enumerate() {
            clock::advance_ms(3);
            drew_b = false;
            drew_a = false;
            let r = catch(|| match op {
                Op::AddA => {
                    if in_a.len() + in_b.len() < 4 {
                        let name = format!("a{n}");
                        n += 1;
                        let pb = a.add(mk(&name));
                        pb.tick();
                        in_a.push((name, pb));
                        drew_a = true;
                    }
                }
                Op::AddB => {
                    if in_a.len() + in_b.len() < 4 {
                        let name = format!("b{n}");
                        n += 1;
                        let pb = b.add(mk(&name));
                        pb.tick();
                        in_b.push((name, pb));
                        drew_b = true;
                    }
                }
                Op::MoveAtoB => {
                    if !in_a.is_empty() {
                        let (name, pb) = in_a.remove(0);
                        let pb = b.add(pb);
                        pb.tick();
                        moved.push(name.clone());
                        in_b.push((name, pb));
                        drew_b = true;
                    }
                }
                Op::TickB => {
                    for (_, pb) in &in_b {
                        pb.tick();
                        drew_b = true;
                    }
                }
                Op::TickA => {
                    for (_, pb) in &in_a {
                        pb.tick();
                        drew_a = true;
                    }
                }
                Op::FinishFirstB => {
                    if !in_b.is_empty() {
                        let (name, pb) = in_b.remove(0);
                        pb.finish();
                        drop(pb);
                        finished_b.push(name);
                        drew_b = true;
                    }
                }
                Op::PrintlnB => {
                    let t = format!("L{n}");
                    n += 1;
                    let _ = b.println(&t);
                    logs_b.push(t);
                    // a printed line may take the static lines of finished bars with it
                    finished_b.clear();
                    drew_b = true;
                }
            });
            if let Err(p) = r {
                std::mem::forget((in_a, in_b));
                return Verdict::Bad(Violation { class: format!("panic: {}", panic_class(&p)), config: "two MultiProgress".into(), history: shown[..=i].to_vec(), detail: p });
            }
        }
        let (da, db) = (ta.doc(), tb.doc());
        let names_a: Vec<String> = in_a.iter().map(|(n, _)| n.clone()).collect();
        let names_b: Vec<String> = in_b.iter().map(|(n, _)| n.clone()).collect();
        let _ = catch(move || drop((in_a, in_b, a, b)));
        let bad = |class: &str, detail: String| Verdict::Bad(Violation { class: class.into(), config: "two MultiProgress".into(), history: shown.clone(), detail });
        if self.prop == "C02" && drew_b {
            let want: Vec<String> = names_b.iter().map(|n| format!("{n}:0")).collect();
            let got: Vec<String> = db.iter().filter(|r| r.ends_with(":0")).cloned().collect();
            if got != want {
                return bad("bars: a draw does not show every member of a MultiProgress once, in joining order (bars handed over from another MultiProgress included)", format!("members {:?}, its terminal shows {:?}", names_b, db));
            }
            let logs: Vec<&String> = db.iter().filter(|r| r.starts_with('L')).collect();
            if logs != logs_b.iter().collect::<Vec<_>>() {
                return bad("log: a line printed on the receiving MultiProgress is missing or out of order", format!("printed {:?}, shows {:?}", logs_b, db));
            }
        }
        if self.prop == "C02" && drew_a {
            // a bar that was handed over is not painted on the terminal it left any more
            if let Some(m) = moved.iter().find(|m| da.iter().any(|r| r.starts_with(&format!("{m}:")))) {
                return bad("bars: a bar handed over to another MultiProgress is still painted by the one it left", format!("bar {m}; terminal of the first MultiProgress shows {:?}", da));
            }
            let want: Vec<String> = names_a.iter().map(|n| format!("{n}:0")).collect();
            let got: Vec<String> = da.iter().filter(|r| r.ends_with(":0")).cloned().collect();
            if got != want {
                return bad("bars: a draw does not show every member of a MultiProgress once, in joining order (after one of them was handed over)", format!("members {:?}, its terminal shows {:?}", names_a, da));
            }
        }
        if self.prop == "C04" {
            for f in &finished_b {
                if db.iter().filter(|r| **r == format!("{f}:5")).count() != 1 {
                    return bad("final-state: a bar finished on the MultiProgress it was handed over to (or added to) does not show its final state there", format!("bar {f}; terminal shows {:?}", db));
                }
            }
        }
        stats.outcomes.insert(hash_of(&(&da, &db)));
        Verdict::Ok { hash: hash_of(&(&da, &db)), nontrivial: !moved.is_empty() }
    }
}

pub fn depth(tier: Tier) -> usize {
    if tier == Tier::Quick { 5 } else { 6 }
}

pub fn run(tier: Tier, shard: Shard, stats: &mut Stats, prop: &'static str) {
    Dfs::new(&C02y { prop }, depth(tier), shard, 1).explore(stats);
}

pub fn replay(v: &serde_json::Value, prop: &'static str) -> Option<i32> {
    if v["config"] != "two MultiProgress" {
        return None;
    }
    let hist: Vec<String> = v["history"].as_array().map(|a| a.iter().map(|s| s.as_str().unwrap_or("").to_string()).collect()).unwrap_or_default();
    Some(crate::replay_hist(&C02y { prop }, &hist, prop))
}
