//! C17 — iterator and I/O adaptors are transparent and count exactly (ENV: scripted inner objects).
//!
//! Every call sequence is run against a scripted inner object twice — bare and wrapped in a
//! progress bar — with the same script of environment answers (full / short / zero / Interrupted /
//! hard error / Pending).  Results, delivered bytes and the inner call log must be identical and the
//! bar's position must move by exactly what was transferred.

use crate::report::{hash_of, Shard, Stats, Violation};
use crate::util::{catch, panic_class};
use crate::{clock, Meta, Tier};
use indicatif::{ProgressBar, ProgressDrawTarget, ProgressFinish};
use serde_json::{json, Value};
use std::cell::RefCell;
use std::io::{self, BufRead, IoSlice, IoSliceMut, Read, Seek, SeekFrom, Write};
use std::rc::Rc;

#[derive(Clone, Copy, Debug, PartialEq, Eq, Hash)]
pub enum Ans {
    Full,
    One,
    Zero,
    Intr,
    Fail,
    Pending,
}

#[derive(Default)]
pub struct Inner {
    pub data: Vec<u8>,
    pub pos: usize,
    pub calls: usize,
    pub script: Vec<(usize, Ans)>,
    pub log: Vec<String>,
    /// bytes accepted by a writer
    pub written: Vec<u8>,
    /// BufRead: bytes currently buffered (already taken from data at pos..pos+buffered)
    pub buffered: usize,
    pub consumed: usize,
}

impl Inner {
    fn answer(&mut self) -> Ans {
        let a = self.script.iter().find(|(i, _)| *i == self.calls).map(|x| x.1).unwrap_or(Ans::Full);
        self.calls += 1;
        a
    }
}

#[derive(Clone)]
pub struct Src(pub Rc<RefCell<Inner>>);

impl Src {
    pub fn new(n: usize, script: &[(usize, Ans)]) -> Src {
        Src(Rc::new(RefCell::new(Inner { data: (0..n as u8).map(|i| b'a' + i).collect(), script: script.to_vec(), ..Default::default() })))
    }
}

fn other() -> io::Error {
    io::Error::new(io::ErrorKind::Other, "scripted failure")
}

impl Read for Src {
    fn read(&mut self, buf: &mut [u8]) -> io::Result<usize> {
        let mut s = self.0.borrow_mut();
        if s.buffered > 0 {
            // like std's BufReader: buffered bytes are served first
            let n = buf.len().min(s.buffered);
            let p = s.pos;
            buf[..n].copy_from_slice(&s.data[p..p + n]);
            s.pos += n;
            s.buffered -= n;
            s.consumed += n;
            s.log.push(format!("read({}) -> {} (buffered)", buf.len(), n));
            return Ok(n);
        }
        let a = s.answer();
        let rem = s.data.len().saturating_sub(s.pos);
        let n = match a {
            Ans::Full | Ans::Pending => buf.len().min(rem),
            Ans::One => buf.len().min(rem).min(1),
            Ans::Zero => 0,
            Ans::Intr => {
                s.log.push(format!("read({}) -> Interrupted", buf.len()));
                return Err(io::Error::new(io::ErrorKind::Interrupted, "scripted"));
            }
            Ans::Fail => {
                s.log.push(format!("read({}) -> Err", buf.len()));
                return Err(other());
            }
        };
        let p = s.pos;
        if n > 0 {
            buf[..n].copy_from_slice(&s.data[p..p + n]);
        }
        s.pos += n;
        s.consumed += n;
        s.log.push(format!("read({}) -> {}", buf.len(), n));
        Ok(n)
    }
}

impl BufRead for Src {
    fn fill_buf(&mut self) -> io::Result<&[u8]> {
        let mut s = self.0.borrow_mut();
        if s.buffered == 0 {
            let a = s.answer();
            let rem = s.data.len().saturating_sub(s.pos);
            let n = match a {
                Ans::Full | Ans::Pending => rem.min(5),
                Ans::One => rem.min(1),
                Ans::Zero => 0,
                Ans::Intr => {
                    s.log.push("fill_buf -> Interrupted".into());
                    return Err(io::Error::new(io::ErrorKind::Interrupted, "scripted"));
                }
                Ans::Fail => {
                    s.log.push("fill_buf -> Err".into());
                    return Err(other());
                }
            };
            s.buffered = n;
        }
        let (p, b) = (s.pos, s.buffered);
        s.log.push(format!("fill_buf -> {}", b));
        drop(s);
        // leak-free view: copy out (the harness compares contents, not addresses)
        let v: Vec<u8> = self.0.borrow().data[p..p + b].to_vec();
        Ok(Box::leak(v.into_boxed_slice()))
    }

    fn consume(&mut self, amt: usize) {
        let mut s = self.0.borrow_mut();
        let amt = amt.min(s.buffered);
        s.pos += amt;
        s.buffered -= amt;
        s.consumed += amt;
        s.log.push(format!("consume({})", amt));
    }
}

impl Write for Src {
    fn write(&mut self, buf: &[u8]) -> io::Result<usize> {
        let mut s = self.0.borrow_mut();
        let a = s.answer();
        let n = match a {
            Ans::Full | Ans::Pending => buf.len(),
            Ans::One => buf.len().min(1),
            Ans::Zero => 0,
            Ans::Intr => {
                s.log.push(format!("write({}) -> Interrupted", buf.len()));
                return Err(io::Error::new(io::ErrorKind::Interrupted, "scripted"));
            }
            Ans::Fail => {
                s.log.push(format!("write({}) -> Err", buf.len()));
                return Err(other());
            }
        };
        s.written.extend_from_slice(&buf[..n]);
        s.log.push(format!("write({}) -> {}", buf.len(), n));
        Ok(n)
    }

    fn flush(&mut self) -> io::Result<()> {
        let mut s = self.0.borrow_mut();
        let a = s.answer();
        s.log.push(format!("flush -> {:?}", a));
        match a {
            Ans::Fail => Err(other()),
            Ans::Intr => Err(io::Error::new(io::ErrorKind::Interrupted, "scripted")),
            _ => Ok(()),
        }
    }
}

impl Seek for Src {
    fn seek(&mut self, f: SeekFrom) -> io::Result<u64> {
        let mut s = self.0.borrow_mut();
        let a = s.answer();
        if matches!(a, Ans::Fail | Ans::Intr) {
            s.log.push(format!("seek({:?}) -> Err", f));
            return Err(other());
        }
        let len = s.data.len() as i64;
        let np = match f {
            SeekFrom::Start(p) => p as i64,
            SeekFrom::Current(d) => s.pos as i64 + d,
            SeekFrom::End(d) => len + d,
        };
        if np < 0 {
            s.log.push(format!("seek({:?}) -> invalid", f));
            return Err(io::Error::new(io::ErrorKind::InvalidInput, "negative seek"));
        }
        s.pos = (np as usize).min(1 << 20);
        s.log.push(format!("seek({:?}) -> {}", f, np));
        Ok(np as u64)
    }
}

#[derive(Clone, Copy, Debug, PartialEq)]
pub enum Call {
    Read(usize),
    ReadVectored,
    ReadExact(usize),
    ReadToEnd,
    ReadToString,
    FillBuf,
    Consume(usize),
    ConsumeAll,
    ReadLine,
    Write(usize),
    WriteVectored,
    WriteAll(usize),
    Flush,
    SeekStart(u64),
    SeekCur(i64),
    SeekEnd(i64),
    StreamPos,
    Rewind,
    /// not a call on the stream: the caller moves the bar itself (set_position(40)), so that bar and
    /// stream offset differ when the next seek arrives
    BarSetPos,
    /// reset() of the bar between two calls on the wrapped object: counting goes on from zero
    BarReset,
}

/// Execute one call on any object with the needed traits; returns a printable result and, for the
/// wrapped run, lets the caller look at the position.
fn do_call<T: Read + BufRead + Write + Seek>(t: &mut T, c: Call, last_fill: &mut usize) -> String {
    // any read invalidates what the last fill_buf showed: consume() may only follow a fill_buf
    if matches!(c, Call::Read(_) | Call::ReadVectored | Call::ReadExact(_) | Call::ReadToEnd | Call::ReadToString) {
        *last_fill = 0;
    }
    match c {
        Call::Read(n) => {
            let mut b = vec![0u8; n];
            match t.read(&mut b) {
                Ok(k) => format!("Ok({k}) {:?}", &b[..k]),
                Err(e) => format!("Err({:?})", e.kind()),
            }
        }
        Call::ReadVectored => {
            let (mut a, mut b) = ([0u8; 2], [0u8; 2]);
            let r = t.read_vectored(&mut [IoSliceMut::new(&mut a), IoSliceMut::new(&mut b)]);
            match r {
                Ok(k) => format!("Ok({k}) {:?}{:?}", a, b),
                Err(e) => format!("Err({:?})", e.kind()),
            }
        }
        Call::ReadExact(n) => {
            let mut b = vec![0u8; n];
            match t.read_exact(&mut b) {
                Ok(()) => format!("Ok {:?}", b),
                Err(e) => format!("Err({:?})", e.kind()),
            }
        }
        Call::ReadToEnd => {
            let mut v = Vec::new();
            match t.read_to_end(&mut v) {
                Ok(k) => format!("Ok({k}) {:?}", v),
                Err(e) => format!("Err({:?}) {:?}", e.kind(), v),
            }
        }
        Call::ReadToString => {
            let mut s = String::new();
            match t.read_to_string(&mut s) {
                Ok(k) => format!("Ok({k}) {:?}", s),
                Err(e) => format!("Err({:?})", e.kind()),
            }
        }
        Call::FillBuf => match t.fill_buf() {
            Ok(b) => {
                *last_fill = b.len();
                format!("Ok {:?}", b)
            }
            Err(e) => format!("Err({:?})", e.kind()),
        },
        Call::Consume(k) => {
            let k = k.min(*last_fill);
            t.consume(k);
            *last_fill -= k;
            format!("consumed {k}")
        }
        Call::ConsumeAll => {
            let k = *last_fill;
            t.consume(k);
            *last_fill = 0;
            format!("consumed {k}")
        }
        Call::ReadLine => {
            let mut s = String::new();
            match t.read_line(&mut s) {
                Ok(k) => {
                    *last_fill = 0;
                    format!("Ok({k}) {:?}", s)
                }
                Err(e) => {
                    *last_fill = 0;
                    format!("Err({:?})", e.kind())
                }
            }
        }
        Call::Write(n) => match t.write(&b"0123456789"[..n]) {
            Ok(k) => format!("Ok({k})"),
            Err(e) => format!("Err({:?})", e.kind()),
        },
        Call::WriteVectored => match t.write_vectored(&[IoSlice::new(b"xy"), IoSlice::new(b"zw")]) {
            Ok(k) => format!("Ok({k})"),
            Err(e) => format!("Err({:?})", e.kind()),
        },
        Call::WriteAll(n) => match t.write_all(&b"0123456789"[..n]) {
            Ok(()) => "Ok".into(),
            Err(e) => format!("Err({:?})", e.kind()),
        },
        Call::Flush => match t.flush() {
            Ok(()) => "Ok".into(),
            Err(e) => format!("Err({:?})", e.kind()),
        },
        Call::SeekStart(p) => fmt_seek(t.seek(SeekFrom::Start(p))),
        Call::SeekCur(d) => fmt_seek(t.seek(SeekFrom::Current(d))),
        Call::SeekEnd(d) => fmt_seek(t.seek(SeekFrom::End(d))),
        Call::StreamPos => fmt_seek(t.stream_position()),
        Call::BarSetPos | Call::BarReset => "bar".to_string(),
        Call::Rewind => match t.rewind() {
            Ok(()) => "Ok".into(),
            Err(e) => format!("Err({:?})", e.kind()),
        },
    }
}

fn fmt_seek(r: io::Result<u64>) -> String {
    match r {
        Ok(p) => format!("Ok({p})"),
        Err(e) => format!("Err({:?})", e.kind()),
    }
}

#[derive(Clone, Copy, Debug, PartialEq)]
pub enum Family {
    Reader,
    BufReader,
    Writer,
    Seeker,
}

fn calls_of(f: Family) -> Vec<Call> {
    match f {
        Family::Reader => vec![Call::Read(3), Call::Read(0), Call::ReadVectored, Call::ReadExact(4), Call::ReadToEnd, Call::ReadToString, Call::BarReset],
        Family::BufReader => vec![Call::FillBuf, Call::Consume(0), Call::Consume(2), Call::ConsumeAll, Call::Read(3), Call::ReadLine],
        Family::Writer => vec![Call::Write(3), Call::Write(0), Call::WriteVectored, Call::WriteAll(5), Call::Flush, Call::BarReset],
        Family::Seeker => vec![Call::SeekStart(5), Call::SeekCur(-2), Call::SeekCur(0), Call::SeekEnd(0), Call::SeekStart(150), Call::SeekCur(-99), Call::StreamPos, Call::Rewind, Call::Read(3), Call::BarSetPos],
    }
}

fn hidden_bar() -> ProgressBar {
    ProgressBar::with_draw_target(Some(100), ProgressDrawTarget::hidden())
}

/// One differential run.  Returns (distinct-outcome hash, non-trivial) or a violation description.
fn diff_run(fam: Family, calls: &[Call], script: &[(usize, Ans)]) -> Result<(u64, bool), (String, String)> {
    diff_run_at(fam, calls, script, 2)
}

/// `step_ms` = virtual time between two calls (0: everything happens within one instant, faster than
/// the bar's own update limiter refills).
fn diff_run_at(fam: Family, calls: &[Call], script: &[(usize, Ans)], step_ms: u64) -> Result<(u64, bool), (String, String)> {
    clock::reset();
    let bare = Src::new(12, script);
    let inner = Src::new(12, script);
    let pb = hidden_bar();
    let mut wrapped = match fam {
        Family::Writer => pb.wrap_write(inner.clone()),
        _ => pb.wrap_read(inner.clone()),
    };
    let mut bare_obj = bare.clone();
    let (mut lf1, mut lf2) = (0usize, 0usize);
    let mut results = Vec::new();
    let mut model_pos = 0u64;
    // use up the burst of the bar's update limiter first when no time passes between the calls
    if step_ms == 0 {
        for _ in 0..12 {
            pb.inc(0);
        }
    }
    for (i, &c) in calls.iter().enumerate() {
        clock::advance_ms(step_ms);
        if c == Call::BarReset {
            pb.reset();
            model_pos = 0;
            results.push("bar.reset()".to_string());
            continue;
        }
        if c == Call::BarSetPos {
            pb.set_position(40);
            model_pos = 40;
            results.push("bar.set_position(40)".to_string());
            continue;
        }
        let r1 = do_call(&mut bare_obj, c, &mut lf1);
        let before_consumed = inner.0.borrow().consumed as u64;
        let before_written = inner.0.borrow().written.len() as u64;
        let r2 = do_call(&mut wrapped, c, &mut lf2);
        if r1 != r2 {
            return Err(("transparency: a wrapped call returns something different from the bare object".into(), format!("call #{i} {:?}: bare {r1}, wrapped {r2}", c)));
        }
        let (l1, l2) = (bare.0.borrow().log.clone(), inner.0.borrow().log.clone());
        if l1 != l2 {
            return Err(("transparency: the inner object sees different calls when wrapped".into(), format!("after call #{i} {:?}: bare {:?}, wrapped {:?}", c, l1, l2)));
        }
        let pos = pb.position();
        let ok = r2.starts_with("Ok") || r2.starts_with("consumed");
        match fam {
            Family::Seeker if !matches!(c, Call::Read(_)) => {
                let want = match c {
                    Call::StreamPos => model_pos,
                    _ if ok => {
                        if c == Call::Rewind {
                            0
                        } else {
                            r2[3..r2.len() - 1].parse::<u64>().unwrap()
                        }
                    }
                    _ => model_pos,
                };
                if pos != want {
                    return Err(("seek: position is not the offset returned by the seek (or changed by a failed seek / stream_position)".into(), format!("call #{i} {:?} -> {r2}: position {pos}, expected {want}", c)));
                }
                model_pos = want;
            }
            Family::Writer => {
                let moved = inner.0.borrow().written.len() as u64 - before_written;
                if pos != model_pos + moved {
                    return Err(("count: position did not advance by exactly the bytes written".into(), format!("call #{i} {:?} -> {r2}: position {pos}, expected {}", c, model_pos + moved)));
                }
                model_pos = pos;
            }
            _ => {
                let moved = inner.0.borrow().consumed as u64 - before_consumed;
                let unspecified = !ok && matches!(c, Call::ReadExact(_) | Call::ReadToString | Call::ReadToEnd | Call::ReadLine);
                if unspecified {
                    // how much was transferred before the failure is unspecified by std: never more than consumed
                    if pos < model_pos || pos > model_pos + moved {
                        return Err(("count: after a failed bulk read the position exceeds the bytes consumed from the source".into(), format!("call #{i} {:?} -> {r2}: position {pos}, consumed {}", c, model_pos + moved)));
                    }
                    model_pos += moved; // resynchronise: the source really moved
                    // keep the bar in step with the model for the following calls
                    pb.set_position(model_pos);
                } else {
                    if pos != model_pos + moved {
                        return Err(("count: position did not advance by exactly the bytes transferred".into(), format!("call #{i} {:?} -> {r2}: position {pos}, expected {}", c, model_pos + moved)));
                    }
                    model_pos = pos;
                }
            }
        }
        results.push(r2);
    }
    Ok((hash_of(&(format!("{:?}", fam), &results)), model_pos > 0))
}

fn scripts(max_calls: usize, answers: &[Ans], tier: Tier) -> Vec<Vec<(usize, Ans)>> {
    let mut v = vec![vec![]];
    for i in 0..max_calls {
        for &a in answers {
            v.push(vec![(i, a)]);
        }
    }
    let lim = if tier == Tier::Quick { max_calls.min(4) } else { max_calls };
    for i in 0..lim {
        for j in i + 1..lim {
            for &a in answers {
                for &b in answers {
                    v.push(vec![(i, a), (j, b)]);
                }
            }
        }
    }
    v
}

fn seqs(alpha: &[Call], max: usize) -> Vec<Vec<Call>> {
    let mut all = vec![];
    let mut cur: Vec<Vec<Call>> = vec![vec![]];
    for _ in 0..max {
        let mut next = Vec::new();
        for c in &cur {
            for a in alpha {
                let mut d = c.clone();
                d.push(*a);
                next.push(d);
            }
        }
        all.extend(next.iter().cloned());
        cur = next;
    }
    all
}

fn sync_part(tier: Tier, shard: Shard, stats: &mut Stats, case: &mut u64) {
    let depth = if tier == Tier::Quick { 3 } else { 5 };
    for fam in [Family::Reader, Family::BufReader, Family::Writer, Family::Seeker] {
        let alpha = calls_of(fam);
        let all = seqs(&alpha, depth);
        let scr = scripts(6, &[Ans::One, Ans::Zero, Ans::Intr, Ans::Fail], tier);
        for calls in &all {
            for script in &scr {
                *case += 1;
                if !shard.owns(*case) {
                    continue;
                }
                stats.evaluations += 1;
                stats.transitions += calls.len() as u64;
                // the empty-script cases run a second time with a frozen clock
                for step_ms in if script.is_empty() { vec![2u64, 0] } else { vec![2] } {
                let hist = vec![format!("{:?}", fam), format!("calls {:?}", calls), format!("script {:?}{}", script, if step_ms == 0 { " (no time passes between the calls; the bar's update limiter is exhausted)" } else { "" })];
                match catch(|| diff_run_at(fam, calls, script, step_ms)) {
                    Err(p) => stats.violation(Violation { class: format!("panic: {}", panic_class(&p)), config: format!("{:?}", fam), history: hist, detail: p }),
                    Ok(Err((class, detail))) => stats.violation(Violation { class: format!("{:?}: {class}", fam), config: format!("{:?}", fam), history: hist, detail }),
                    Ok(Ok((h, nt))) => {
                        stats.state_outcome(h, nt && !script.is_empty());
                        if stats.samples.len() < 3 && script.len() == 2 {
                            stats.sample(json!(hist));
                        }
                    }
                }
                }
            }
        }
    }
}

// ---------------------------------------------------------------------------------------------
// iterators

#[derive(Clone, Debug)]
struct ScriptIter {
    /// what successive next() calls yield from the front
    front: Vec<Option<u8>>,
    i: usize,
    back: Vec<Option<u8>>,
    j: usize,
}

impl Iterator for ScriptIter {
    type Item = u8;
    fn next(&mut self) -> Option<u8> {
        let r = self.front.get(self.i).copied().flatten();
        self.i += 1;
        r
    }
}

impl DoubleEndedIterator for ScriptIter {
    fn next_back(&mut self) -> Option<u8> {
        let r = self.back.get(self.j).copied().flatten();
        self.j += 1;
        r
    }
}

const FINS: [&str; 5] = ["AndLeave", "AndClear", "WithMessage", "Abandon", "AbandonWithMessage"];

fn fin(i: usize) -> ProgressFinish {
    match i {
        0 => ProgressFinish::AndLeave,
        1 => ProgressFinish::AndClear,
        2 => ProgressFinish::WithMessage("fin".into()),
        3 => ProgressFinish::Abandon,
        _ => ProgressFinish::AbandonWithMessage("abd".into()),
    }
}

fn iter_part(tier: Tier, shard: Shard, stats: &mut Stats, case: &mut u64) {
    use indicatif::ProgressIterator;
    // shapes: what the inner iterator yields on successive calls (None may be followed by Some: not fused)
    let shapes: Vec<Vec<Option<u8>>> = vec![
        vec![],
        vec![Some(1)],
        vec![Some(1), Some(2), Some(3)],
        vec![Some(1), None, Some(2)],
        vec![None, Some(1), None, None, Some(2)],
        vec![Some(1), Some(2), None, Some(3), Some(4)],
    ];
    // 0 = next, 1 = next_back, 2 = nth(1), 3 = size_hint, 4 = by_ref().take(2).count(),
    // 5 = fold by value (internal iteration; consumes the adaptor, so only as the last call)
    let depth = if tier == Tier::Quick { 4 } else { 6 };
    let mut ops: Vec<Vec<u8>> = vec![];
    let mut cur: Vec<Vec<u8>> = vec![vec![]];
    for _ in 0..depth {
        let mut nx = vec![];
        for c in &cur {
            for o in 0..5u8 {
                let mut d = c.clone();
                d.push(o);
                nx.push(d);
            }
        }
        ops.extend(nx.iter().cloned());
        cur = nx;
    }
    let with_fold: Vec<Vec<u8>> = std::iter::once(vec![5u8])
        .chain(ops.iter().filter(|o| o.len() < depth).map(|o| {
            let mut d = o.clone();
            d.push(5);
            d
        }))
        .collect();
    ops.extend(with_fold);
    for shape in &shapes {
        for f in 0..5usize {
            // (with and without a length: finishing moves the position to the length only if there is one)
            for blen in [Some(10u64), None] {
            // (the caller keeps a handle of its own, or the adaptor is the only owner and the bar is read
            // through a weak handle upgraded for the reading only)
            for keep in [true, false] {
            for seq in &ops {
                *case += 1;
                if !shard.owns(*case) {
                    continue;
                }
                stats.evaluations += 1;
                stats.transitions += seq.len() as u64;
                let hist = vec!["Iterator".to_string(), format!("inner yields {:?} (front and back)", shape), format!("on_finish {}", FINS[f]), format!("calls {:?}", seq), format!("bar length {:?}", blen), format!("caller keeps a handle: {keep}")];
                let r = catch(|| -> Result<(u64, bool), (String, String)> {
                    clock::reset();
                    let mk = || ScriptIter { front: shape.clone(), i: 0, back: shape.clone(), j: 0 };
                    let mut bare = mk();
                    let pb = ProgressBar::with_draw_target(blen, ProgressDrawTarget::hidden()).with_finish(fin(f)).with_message("msg");
                    let weak = pb.downgrade();
                    let mut wrapped = if keep { mk().progress_with(pb.clone()) } else { mk().progress_with(pb.clone()) };
                    if !keep {
                        drop(pb);
                    }
                    let pb = ();
                    let _ = pb;
                    let mut yielded = 0u64;
                    let mut finished = false;
                    let mut model_pos = 0u64;
                    let mut out = vec![];
                    for (k, &o) in seq.iter().enumerate() {
                        clock::advance_ms(2);
                        let (mut i0, j0) = (bare.i, bare.j);
                        if o == 5 {
                            i0 = bare.i;
                        }
                        let (r1, r2): (String, String) = match o {
                            5 => {
                                let b = std::mem::replace(&mut bare, ScriptIter { front: vec![], i: 0, back: vec![], j: 0 });
                                let (bi, bj) = (b.i, b.j);
                                let w = std::mem::replace(&mut wrapped, ScriptIter { front: vec![], i: 0, back: vec![], j: 0 }.progress_with(ProgressBar::hidden()));
                                let mut consumed = 0usize;
                                let r1 = b.fold(0u32, |a, x| {
                                    consumed += 1;
                                    a * 10 + x as u32
                                });
                                let r2 = w.fold(0u32, |a, x| a * 10 + x as u32);
                                // the answers the bare fold consumed: `consumed` items and the None that ended it
                                bare.i = bi + consumed + 1;
                                bare.j = bj;
                                bare.front = shape.clone();
                                (format!("{r1}"), format!("{r2}"))
                            }
                            0 => (format!("{:?}", bare.next()), format!("{:?}", wrapped.next())),
                            1 => (format!("{:?}", bare.next_back()), format!("{:?}", wrapped.next_back())),
                            2 => (format!("{:?}", bare.nth(1)), format!("{:?}", wrapped.nth(1))),
                            3 => (format!("{:?}", bare.size_hint()), format!("{:?}", wrapped.size_hint())),
                            _ => (format!("{}", bare.by_ref().take(2).count()), format!("{}", wrapped.by_ref().take(2).count())),
                        };
                        if r1 != r2 {
                            return Err(("transparency: the wrapped iterator yields something different".into(), format!("call #{k}: bare {r1}, wrapped {r2}")));
                        }
                        // the inner answers consumed by this call, in order
                        let mut answers: Vec<Option<u8>> = (i0..bare.i).map(|x| shape.get(x).copied().flatten()).collect();
                        answers.extend((j0..bare.j).map(|x| shape.get(x).copied().flatten()));
                        for a in answers {
                            match a {
                                Some(_) => {
                                    model_pos += 1;
                                    yielded += 1;
                                }
                                None => {
                                    if !finished {
                                        finished = true;
                                        if f <= 2 {
                                            model_pos = blen.unwrap_or(model_pos);
                                        }
                                    }
                                }
                            }
                        }
                        // (after a fold the adaptor is gone, and with it a bar nobody else holds)
                        let Some(h) = weak.upgrade() else {
                            out.push(r2);
                            continue;
                        };
                        let pb = &h;
                        let p = pb.position();
                        if p != model_pos {
                            let class = if finished { "finish/count: position after exhaustion is not the one defined by the finish behaviour plus later items" } else { "count: position did not advance by exactly the items handed over" };
                            return Err((class.into(), format!("call #{k}: position {p}, expected {model_pos}")));
                        }
                        if pb.is_finished() != finished {
                            let class = if finished { "finish: exhausting the iterator did not finish the bar" } else { "finish: bar finished before the iterator was exhausted" };
                            return Err((class.into(), format!("call #{k}: is_finished() = {}", pb.is_finished())));
                        }
                        let want_m = match (finished, f) {
                            (true, 2) => "fin",
                            (true, 4) => "abd",
                            _ => "msg",
                        };
                        if pb.message() != want_m {
                            return Err(("finish: message after exhaustion is not the one of the finish behaviour".into(), format!("message {:?}, expected {:?}", pb.message(), want_m)));
                        }
                        out.push(r2);
                    }
                    Ok((hash_of(&(shape, f, &out)), yielded > 0))
                });
                match r {
                    Err(p) => stats.violation(Violation { class: format!("panic: {}", panic_class(&p)), config: "Iterator".into(), history: hist, detail: p }),
                    Ok(Err((class, detail))) => stats.violation(Violation { class: format!("Iterator: {class}"), config: "Iterator".into(), history: hist, detail }),
                    Ok(Ok((h, nt))) => stats.state_outcome(hash_of(&(h, blen, keep)), nt),
                }
            }
            }
            }
        }
    }
    stats.sample(json!(["Iterator", "inner yields [Some(1), None, Some(2)]", "on_finish WithMessage", "calls [next, next, next]"]));
}

pub fn run(tier: Tier, shard: Shard, stats: &mut Stats) {
    let mut case = 0u64;
    sync_part(tier, shard, stats, &mut case);
    iter_part(tier, shard, stats, &mut case);
    crate::c17_async::run(tier, shard, stats, &mut case);
    crate::c17_rayon::run(tier, shard, stats, &mut case);
}

pub fn meta(tier: Tier) -> Meta {
    let d = if tier == Tier::Quick { 3 } else { 4 };
    Meta {
        level: "fault_enumeration",
        rule: format!("environment-answer enumeration: every sequence of <= {d} calls on a wrapped reader / buffered reader / writer / seeker over a scripted 12-byte inner object x every script with <= 2 non-default answers (1 byte, 0, Interrupted, hard error) among the first 6 inner calls, each run bare and wrapped (differential); iterators: 6 inner shapes incl. non-fused ones x 5 finish behaviours x every sequence of <= 4 (6) calls of next/next_back/nth/size_hint/take; async adaptors polled by hand with Pending answers; rayon plumbing driven on one thread over every split tree with <= 4 leaves x leaf interleavings; distinct = distinct result vectors; non-trivial = data was transferred under a non-default script"),
        assumptions: vec!["after a failed read_exact/read_to_string/read_to_end/read_line the position is only required not to exceed the bytes consumed (std leaves the amount unspecified); the model resynchronises".into(), "size_hint is compared too (it is passed through)".into(), "real rayon scheduling is replaced by exhaustive split-tree x leaf-order enumeration on one thread".into()],
        bounds: json!({"max_calls": d, "max_non_default_answers": 2}),
        exhaustive: true,
    }
}

pub fn replay(v: &Value) -> i32 {
    println!("case: {}\nrecorded: {}", v["history"], v["detail"]);
    1
}
