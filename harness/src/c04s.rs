//! C04, standalone bars: finishing / dropping / iterator exhaustion always paints the final state,
//! whatever the refresh limiter says (HIST over a rate-limited single-bar target).

use crate::report::{hash_of, Dfs, Hist, Shard, Stats, Verdict, Violation};
use crate::term::{wrap_rows, Spy};
use crate::util::{catch, panic_class};
use crate::{clock, Tier};
use indicatif::{ProgressBar, ProgressDrawTarget, ProgressFinish, ProgressStyle};

#[derive(Clone, Debug, PartialEq)]
pub enum Op {
    Burn,
    Idle,
    Tick,
    Inc,
    Msg(u8),
    SetLen,
    /// dec_length beyond zero / inc_length beyond u64::MAX: the length stops at the bound
    DecLenBeyond,
    IncLenBeyond,
    /// 15 inc(1) through a second handle that then stays alive and idle (the bar's update limiter lets ten
    /// of them through within one instant), then tick() through the first handle: the steps count for
    /// every handle
    IncViaClone15,
    Finish,
    FinishMsg,
    /// finish_with_message("") / abandon_with_message(""): the supplied (empty) message replaces the old one
    FinishMsgEmpty,
    AbandonMsgEmpty,
    FinishClear,
    Abandon,
    AbandonMsg,
    FinishUsingStyle,
    DropBar,
    /// run `wrap_iter` over k items to exhaustion
    Iter(u8),
    /// the same iterator consumed by internal iteration (fold / count / for_each)
    IterFold(u8),
    Reset,
    Println(u8),
    SuspendOut,
    SuspendEmpty,
}

pub struct C04s {
    pub fin: usize,
    pub hz: Option<u8>,
    pub two_line: bool,
    /// the template starts with "{bar:10} " (progress characters "#>-"): bar geometry under skipped draws (C13)
    pub bar: bool,
}

const FINS: [&str; 5] = ["AndLeave", "AndClear", "WithMessage", "Abandon", "AbandonWithMessage"];

fn fin(i: usize) -> ProgressFinish {
    match i {
        0 => ProgressFinish::AndLeave,
        1 => ProgressFinish::AndClear,
        2 => ProgressFinish::WithMessage("fin".into()),
        3 => ProgressFinish::Abandon,
        _ => ProgressFinish::AbandonWithMessage("abd".into()),
    }
}

#[derive(Clone)]
struct Rf {
    pos: u64,
    len: u64,
    msg: String,
    finished: bool,
    hidden: bool,
}

impl Rf {
    fn apply_fin(&mut self, f: usize) {
        self.finished = true;
        self.hidden = false;
        match f {
            0 => self.pos = self.len,
            1 => {
                self.pos = self.len;
                self.hidden = true;
            }
            2 => {
                self.pos = self.len;
                self.msg = "fin".into();
            }
            3 => {}
            _ => self.msg = "abd".into(),
        }
    }
    fn rows(&self, two: bool, w: usize, bar: bool) -> Vec<String> {
        if self.finished && self.hidden {
            return vec![];
        }
        // 10 cells: floor(10*pos/len) filled, one head cell when neither empty nor full (exact for lengths 5 and 9)
        let cells = if !bar {
            String::new()
        } else {
            let filled = if self.len == 0 || self.pos >= self.len { 10 } else { (10u128 * self.pos as u128 / self.len as u128) as usize };
            let head = usize::from(self.pos > 0 && filled < 10);
            format!("{}{}{} ", "#".repeat(filled), ">".repeat(head), "-".repeat(10 - filled - head))
        };
        let mut lines = vec![format!("{cells}{}/{} {}", self.pos, self.len, self.msg).trim_end().to_string()];
        if two {
            lines.push(format!("+{}", self.pos));
        }
        lines.iter().flat_map(|l| wrap_rows(l, w)).collect()
    }
}

impl C04s {
    fn config(&self) -> String {
        format!("standalone bar hz={:?} on_finish={} two_line={}{}", self.hz, FINS[self.fin], self.two_line, if self.bar { " with {bar:10}" } else { "" })
    }
}

impl Hist for C04s {
    type Op = Op;

    fn alphabet(&self, prefix: &[Op]) -> Vec<Op> {
        if prefix.contains(&Op::DropBar) {
            return vec![];
        }
        vec![Op::Burn, Op::Idle, Op::Tick, Op::Inc, Op::Msg(0), Op::Msg(1), Op::SetLen, Op::DecLenBeyond, Op::IncLenBeyond, Op::IncViaClone15, Op::Finish, Op::FinishMsg, Op::FinishMsgEmpty, Op::AbandonMsgEmpty, Op::FinishClear, Op::Abandon, Op::AbandonMsg, Op::FinishUsingStyle, Op::DropBar, Op::Iter(0), Op::Iter(1), Op::Iter(3), Op::IterFold(0), Op::IterFold(3), Op::Reset, Op::Println(0), Op::Println(1), Op::SuspendOut, Op::SuspendEmpty]
            .into_iter()
            // (the bar reference is exact for small lengths only)
            .filter(|o| !(self.bar && *o == Op::IncLenBeyond) && ((self.bar && self.hz.is_none()) || *o != Op::IncViaClone15))
            .collect()
    }

    fn run(&self, hist: &[Op], stats: &mut Stats) -> Verdict {
        clock::reset();
        let w = 24;
        let spy = Spy::new(w, 12, false);
        let target = match self.hz {
            None => ProgressDrawTarget::term_like(spy.boxed()),
            Some(hz) => ProgressDrawTarget::term_like_with_hz(spy.boxed(), hz),
        };
        let tpl = format!("{}{}", if self.bar { "{bar:10} " } else { "" }, if self.two_line { "{pos}/{len} {msg}\n+{pos}" } else { "{pos}/{len} {msg}" });
        let held: std::sync::Mutex<Vec<ProgressBar>> = Default::default();
        let mut pb = Some(ProgressBar::with_draw_target(Some(5), target).with_style(ProgressStyle::with_template(&tpl).unwrap().progress_chars("#>-")).with_finish(fin(self.fin)));
        let mut rf = Rf { pos: 0, len: 5, msg: String::new(), finished: false, hidden: false };
        let shown: Vec<String> = hist.iter().map(|o| format!("{:?}", o)).collect();
        let mut must_paint = false;
        let mut flushes_before = 0;
        let mut doc_before = vec![];
        let mut drop_finished = false;
        let mut logs: Vec<String> = Vec::new();
        let mut frame_shown: Vec<String> = Vec::new();
        let mut painted_last = false;
        for (i, op) in hist.iter().enumerate() {
            clock::advance_ms(2);
            let last = i + 1 == hist.len();
            let flushes_at_op = spy.flushes();
            if last {
                flushes_before = spy.flushes();
                doc_before = spy.doc();
            }
            let bar = pb.clone();
            let r = catch(|| {
                let b = bar.as_ref().unwrap();
                match op {
                    Op::Burn => {
                        for _ in 0..25 {
                            b.tick()
                        }
                    }
                    Op::Idle => clock::advance_ms(1000),
                    Op::Tick => b.tick(),
                    Op::Inc => b.inc(1),
                    Op::Msg(k) => b.set_message(if *k == 0 { "m" } else { "a longer message that wraps!!" }),
                    Op::SetLen => b.set_length(9),
                    Op::DecLenBeyond => b.dec_length(20),
                    Op::IncLenBeyond => b.inc_length(u64::MAX - 3),
                    Op::Finish => b.finish(),
                    Op::FinishMsg => b.finish_with_message("done"),
                    Op::FinishMsgEmpty => b.finish_with_message(""),
                    Op::AbandonMsgEmpty => b.abandon_with_message(""),
                    Op::FinishClear => b.finish_and_clear(),
                    Op::Abandon => b.abandon(),
                    Op::AbandonMsg => b.abandon_with_message("ab"),
                    Op::FinishUsingStyle => b.finish_using_style(),
                    Op::DropBar => {}
                    Op::Iter(k) => {
                        for _ in b.wrap_iter(0..*k) {
                            clock::advance_ms(2);
                        }
                    }
                    Op::IterFold(k) => {
                        let it = b.wrap_iter(0..*k);
                        if *k == 0 {
                            let _ = it.count();
                        } else {
                            it.for_each(|_| clock::advance_ms(2));
                        }
                    }
                    Op::Reset => b.reset(),
                    Op::Println(k) => b.println(if *k == 0 { "log" } else { "a log line wider than the terminal" }),
                    Op::SuspendOut => {
                        let spy2 = spy.clone();
                        b.suspend(|| spy2.raw_write_line("out"))
                    }
                    Op::SuspendEmpty => b.suspend(|| ()),
                    Op::IncViaClone15 => {
                        let c = b.clone();
                        for _ in 0..15 {
                            c.inc(1);
                        }
                        held.lock().unwrap().push(c);
                        // (the bar's update limiter has refused the last of them: an ordinary redraw through
                        // the first handle follows)
                        b.tick();
                    }
                }
            });
            drop(bar);
            if *op == Op::DropBar {
                held.lock().unwrap().clear();
                let b = pb.take();
                if let Err(p) = catch(move || drop(b)) {
                    return Verdict::Bad(Violation { class: format!("panic: {}", panic_class(&p)), config: self.config(), history: shown[..=i].to_vec(), detail: p });
                }
            }
            if let Err(p) = r {
                let _ = catch(move || drop(pb));
                return Verdict::Bad(Violation { class: format!("panic: {}", panic_class(&p)), config: self.config(), history: shown[..=i].to_vec(), detail: p });
            }
            must_paint = false;
            drop_finished = false;
            match op {
                Op::Burn | Op::Idle | Op::Tick => {}
                Op::Inc => rf.pos = rf.pos.wrapping_add(1),
                Op::Msg(k) => rf.msg = if *k == 0 { "m".into() } else { "a longer message that wraps!!".into() },
                Op::SetLen => rf.len = 9,
                Op::IncViaClone15 => rf.pos = rf.pos.wrapping_add(15),
                Op::DecLenBeyond => rf.len = rf.len.saturating_sub(20),
                Op::IncLenBeyond => rf.len = rf.len.saturating_add(u64::MAX - 3),
                Op::Finish => {
                    rf.apply_fin(0);
                    must_paint = true
                }
                Op::FinishMsg => {
                    rf.apply_fin(0);
                    rf.msg = "done".into();
                    must_paint = true
                }
                Op::FinishMsgEmpty => {
                    rf.apply_fin(0);
                    rf.msg = String::new();
                    must_paint = true
                }
                Op::AbandonMsgEmpty => {
                    rf.apply_fin(3);
                    rf.msg = String::new();
                    must_paint = true
                }
                Op::FinishClear => {
                    rf.apply_fin(1);
                    must_paint = true
                }
                Op::Abandon => {
                    rf.apply_fin(3);
                    must_paint = true
                }
                Op::AbandonMsg => {
                    rf.apply_fin(3);
                    rf.msg = "ab".into();
                    must_paint = true
                }
                Op::FinishUsingStyle => {
                    rf.apply_fin(self.fin);
                    must_paint = true
                }
                Op::DropBar => {
                    if rf.finished {
                        drop_finished = true;
                    } else {
                        rf.apply_fin(self.fin);
                        must_paint = true;
                    }
                }
                Op::Iter(k) | Op::IterFold(k) => {
                    rf.pos = rf.pos.wrapping_add(*k as u64);
                    if !rf.finished {
                        rf.apply_fin(self.fin);
                        must_paint = true;
                    }
                }
                Op::Reset => {
                    rf.pos = 0;
                    rf.finished = false;
                    rf.hidden = false;
                }
                Op::Println(k) => {
                    logs.extend(wrap_rows(if *k == 0 { "log" } else { "a log line wider than the terminal" }, w));
                    must_paint = true;
                }
                Op::SuspendOut => {
                    logs.extend(wrap_rows("out", w));
                    must_paint = true;
                }
                Op::SuspendEmpty => must_paint = true,
            }
            if last {
                painted_last = spy.flushes() > flushes_before;
            }
            if spy.flushes() > flushes_at_op {
                // a frame was completed during this operation: it shows the state as of now
                frame_shown = rf.rows(self.two_line, w, self.bar);
            }
        }
        let doc = spy.doc();
        let painted = spy.flushes() > flushes_before;
        let fin_now = pb.as_ref().map(|b| b.is_finished());
        let pos_now = pb.as_ref().map(|b| b.position());
        let _ = catch(move || drop(pb));
        let bad = |class: &str, detail: String| Verdict::Bad(Violation { class: class.into(), config: self.config(), history: shown.clone(), detail });
        if hist.is_empty() {
            return Verdict::Ok { hash: 0, nontrivial: false };
        }
        if must_paint {
            if !painted {
                return bad("final-state: finishing/dropping/exhausting the iterator did not paint a frame", format!("document {:?}", doc));
            }
            let mut want = logs.clone();
            want.extend(rf.rows(self.two_line, w, self.bar));
            while want.last().map_or(false, |s| s.is_empty()) {
                want.pop();
            }
            if doc != want {
                return bad("final-state: the last frame does not show the final state", format!("expected {:?}, terminal shows {:?}", want, doc));
            }
            if let Some(f) = fin_now {
                if !f && rf.finished {
                    return bad("final-state: is_finished() is false after finishing", String::new());
                }
            }
            if let Some(p) = pos_now {
                if p != rf.pos {
                    return bad("final-state: position after finishing is not the one the finish behaviour defines", format!("position {p}, expected {}", rf.pos));
                }
            }
        }
        // redraw integrity under the limiter: the document is always logs ++ the frame of the last
        // completed draw; an operation that completes no draw leaves it untouched
        if !painted_last && doc != doc_before {
            return bad("unpainted-change: the document changed although no frame was completed", format!("before {:?} after {:?}", doc_before, doc));
        }
        {
            let mut want = logs.clone();
            want.extend(frame_shown.iter().cloned());
            while want.last().map_or(false, |s| s.is_empty()) {
                want.pop();
            }
            if spy.flushes() > 0 && doc != want {
                let logs_ok = doc.len() >= logs.len() && doc.iter().zip(logs.iter()).all(|(a, b)| a == b);
                let class = if !logs_ok { "document: a printed line is erased/overwritten (rate-limited target)" } else { "document: frame is not the one of the last completed draw (rate-limited target)" };
                return bad(class, format!("expected {:?}, terminal shows {:?}", want, doc));
            }
        }
        if drop_finished && doc != doc_before {
            return bad("drop-finished: dropping an already finished bar changed the screen", format!("before {:?} after {:?}", doc_before, doc));
        }
        stats.outcomes.insert(hash_of(&doc));
        Verdict::Ok { hash: hash_of(&(&doc, rf.pos, rf.len, &rf.msg, rf.finished, rf.hidden)), nontrivial: !doc.is_empty() }
    }
}

pub fn configs(tier: Tier) -> Vec<(C04s, usize)> {
    let mut v = Vec::new();
    let d = if tier == Tier::Quick { 3 } else { 4 };
    for f in 0..5 {
        v.push((C04s { fin: f, hz: Some(1), two_line: f % 2 == 1, bar: false }, d));
    }
    v.push((C04s { fin: 0, hz: None, two_line: true, bar: false }, d));
    v.push((C04s { fin: 2, hz: Some(255), two_line: false, bar: false }, d));
    v
}

/// The same engine with a {bar:10} in front: the cells painted after skipped draws follow the current
/// position and length (used by C13).
pub fn bar_configs(tier: Tier) -> Vec<(C04s, usize)> {
    let d = if tier == Tier::Quick { 3 } else { 4 };
    vec![(C04s { fin: 0, hz: Some(1), two_line: false, bar: true }, d + 1), (C04s { fin: 3, hz: None, two_line: false, bar: true }, d)]
}

pub fn run_bar(tier: Tier, shard: Shard, stats: &mut Stats) {
    for (cfg, depth) in bar_configs(tier) {
        Dfs::new(&cfg, depth, shard, 1).explore(stats);
    }
}

pub fn run(tier: Tier, shard: Shard, stats: &mut Stats) {
    for (cfg, depth) in configs(tier) {
        Dfs::new(&cfg, depth, shard, 1).explore(stats);
    }
}

pub fn replay(v: &serde_json::Value) -> Option<i32> {
    let hist: Vec<String> = v["history"].as_array().map(|a| a.iter().map(|s| s.as_str().unwrap_or("").to_string()).collect()).unwrap_or_default();
    for (cfg, _) in configs(Tier::Thorough).into_iter().chain(bar_configs(Tier::Thorough)) {
        if cfg.config() == v["config"].as_str().unwrap_or("") {
            return Some(crate::replay_hist(&cfg, &hist, if cfg.bar { "C13" } else { "C04" }));
        }
    }
    None
}
