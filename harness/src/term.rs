//! Reference terminal (grid + unbounded scrollback + deferred wrap) and the `TermLike` spy that
//! drives it (DESIGN §2.3).  The same byte stream is optionally fed to a `vt100::Parser`; at every
//! flush the visible grids and cursors must agree (a disagreement is a machinery error).

use std::io;
use std::sync::{Arc, Mutex};

use indicatif::TermLike;

pub fn char_width(ch: char) -> usize {
    // unicode-width through console's own measure (what the crate under test uses too) would
    // make the model depend on the subject; use an explicit table for the harness alphabets and
    // fall back to unicode-width for anything else.
    match ch {
        '\u{0}'..='\u{1f}' | '\u{7f}' => 0,
        ' '..='~' => 1,
        '\u{200b}' | '\u{200d}' | '\u{301}' | '\u{3099}' => 0,
        '日' | '本' | '語' | '好' | 'か' => 2,
        'é' | 'ö' | '█' | '░' | '▓' | '▒' | '⠁'..='⣿' => 1,
        _ => console::measure_text_width(&ch.to_string()),
    }
}

/// Column width of a string, skipping CSI sequences.
pub fn str_width(s: &str) -> usize {
    let mut w = 0;
    let mut it = s.chars().peekable();
    while let Some(ch) = it.next() {
        if ch == '\x1b' {
            if it.peek() == Some(&'[') {
                it.next();
                for c in it.by_ref() {
                    if ('\x40'..='\x7e').contains(&c) {
                        break;
                    }
                }
            }
            continue;
        }
        w += char_width(ch);
    }
    w
}

const CONT: char = '\u{0}';

#[derive(Clone)]
pub struct TermModel {
    pub w: usize,
    pub h: usize,
    rows: Vec<Vec<char>>,
    top: usize,
    r: usize,
    c: usize,
    pending: bool,
}

impl TermModel {
    pub fn new(w: usize, h: usize) -> Self {
        TermModel {
            w,
            h,
            rows: (0..h).map(|_| vec![' '; w]).collect(),
            top: 0,
            r: 0,
            c: 0,
            pending: false,
        }
    }

    fn blank(&self) -> Vec<char> {
        vec![' '; self.w]
    }

    fn line_feed(&mut self) {
        if self.r + 1 < self.h {
            self.r += 1;
        } else {
            let b = self.blank();
            self.rows.push(b);
            self.top += 1;
        }
    }

    fn cur_row(&mut self) -> &mut Vec<char> {
        let i = self.top + self.r;
        &mut self.rows[i]
    }

    fn put(&mut self, ch: char) {
        let cw = char_width(ch);
        if cw == 0 {
            return;
        }
        if self.pending || self.c + cw > self.w {
            // deferred wrap (or a wide char that does not fit into the last column)
            if cw > self.w {
                return; // cannot be shown at all
            }
            self.c = 0;
            self.pending = false;
            self.line_feed();
        }
        let c = self.c;
        let w = self.w;
        let row = self.cur_row();
        // overwriting half of a wide char blanks the other half
        if row[c] == CONT && c > 0 {
            row[c - 1] = ' ';
        }
        row[c] = ch;
        if cw == 2 {
            if c + 2 < w && row[c + 2] == CONT {
                row[c + 2] = ' ';
            }
            row[c + 1] = CONT;
        } else if c + 1 < w && row[c + 1] == CONT {
            row[c + 1] = ' ';
        }
        if c + cw >= w {
            self.c = w - 1;
            self.pending = true;
        } else {
            self.c = c + cw;
        }
    }

    pub fn write(&mut self, s: &str) {
        let mut it = s.chars().peekable();
        while let Some(ch) = it.next() {
            match ch {
                '\r' => {
                    self.c = 0;
                    self.pending = false;
                }
                '\n' => {
                    // bare LF: next row, same column (vt100 semantics); callers send CR LF
                    self.pending = false;
                    self.line_feed();
                }
                '\x1b' => {
                    if it.peek() == Some(&'[') {
                        it.next();
                        let mut params = String::new();
                        let mut fin = ' ';
                        for c in it.by_ref() {
                            if ('\x40'..='\x7e').contains(&c) {
                                fin = c;
                                break;
                            }
                            params.push(c);
                        }
                        self.csi(&params, fin);
                    }
                }
                _ => self.put(ch),
            }
        }
    }

    fn csi(&mut self, params: &str, fin: char) {
        let n = params.parse::<usize>().unwrap_or(1).max(1);
        match fin {
            'A' => self.up(n),
            'B' => self.down(n),
            'C' => {
                self.c = (self.c + n).min(self.w - 1);
                self.pending = false;
            }
            'D' => {
                self.c = self.c.saturating_sub(n);
                self.pending = false;
            }
            'K' => {
                if params == "2" {
                    let b = self.blank();
                    *self.cur_row() = b;
                }
            }
            _ => {} // SGR etc.
        }
    }

    pub fn up(&mut self, n: usize) {
        if n == 0 {
            return;
        }
        self.r = self.r.saturating_sub(n);
        self.pending = false;
    }

    pub fn down(&mut self, n: usize) {
        if n == 0 {
            return;
        }
        self.r = (self.r + n).min(self.h - 1);
        self.pending = false;
    }

    pub fn clear_line(&mut self) {
        self.c = 0;
        self.pending = false;
        let b = self.blank();
        *self.cur_row() = b;
    }

    pub fn newline(&mut self) {
        self.c = 0;
        self.pending = false;
        self.line_feed();
    }

    fn row_string(row: &[char]) -> String {
        let s: String = row.iter().filter(|&&c| c != CONT).collect();
        s.trim_end_matches(' ').to_string()
    }

    /// Scrollback ++ visible rows, right-trimmed, trailing blank rows removed.
    pub fn doc(&self) -> Vec<String> {
        let mut v: Vec<String> = self.rows.iter().map(|r| Self::row_string(r)).collect();
        while v.last().map_or(false, |s| s.is_empty()) {
            v.pop();
        }
        v
    }

    /// Number of rows that have scrolled out of the visible screen.
    pub fn scrollback_rows(&self) -> usize {
        self.top
    }

    pub fn visible(&self) -> Vec<String> {
        self.rows[self.top..self.top + self.h]
            .iter()
            .map(|r| Self::row_string(r))
            .collect()
    }

    pub fn cursor(&self) -> (usize, usize, bool) {
        (self.r, self.c, self.pending)
    }

    /// Absolute row index (in `doc` coordinates) of the cursor.
    pub fn cursor_abs_row(&self) -> usize {
        self.top + self.r
    }

    /// Fresh-line probe: where would ordinary output written now start?  Returns (absolute row, col).
    pub fn probe_output_position(&self) -> (usize, usize) {
        let mut m = self.clone();
        m.write("X");
        // position of the X just written: cursor is one past it (or pending on last col)
        let (r, c, pending) = m.cursor();
        let col = if pending { m.w - 1 } else { c - 1 };
        (m.top + r, col)
    }
}

static FAULT_KIND: std::sync::atomic::AtomicU8 = std::sync::atomic::AtomicU8::new(0);

/// Error kind of injected faults (0 Other, 1 Interrupted, 2 WouldBlock, 3 BrokenPipe).
pub fn set_fault_kind(k: u8) {
    FAULT_KIND.store(k, std::sync::atomic::Ordering::Relaxed);
}

#[derive(Clone, Copy, Debug, PartialEq, Eq)]
pub enum Fault {
    None,
    /// the k-th fallible terminal call fails (0-based)
    Once(usize),
    /// the k-th and every later fallible call fail
    From(usize),
}

pub struct SpyState {
    /// what width() answers instead of the grid width (a terminal that reports less than it has,
    /// e.g. before it was widened); None = the grid width
    pub report_w: Option<u16>,
    /// answers for the next width() queries, consumed one per query, before `report_w` applies
    pub width_script: std::collections::VecDeque<u16>,
    pub model: TermModel,
    pub vt: Option<vt100::Parser>,
    /// every TermLike method call, including width/height
    pub calls: u64,
    /// fallible calls (everything except width/height)
    pub fallible_calls: usize,
    pub flushes: u64,
    pub writes: u64,
    pub tab_seen: bool,
    pub fault: Fault,
    pub faults_injected: u64,
    pub vt_compares: u64,
    pub vt_panics: u64,
    pub vt_mismatch: Option<String>,
    pub log: Option<Vec<String>>,
    pub frames: Option<Vec<(u64, Vec<String>)>>,
}

#[derive(Clone)]
pub struct Spy(pub Arc<Mutex<SpyState>>);

impl std::fmt::Debug for Spy {
    fn fmt(&self, f: &mut std::fmt::Formatter<'_>) -> std::fmt::Result {
        f.write_str("Spy")
    }
}

impl Spy {
    pub fn new(w: usize, h: usize, with_vt: bool) -> Spy {
        Spy(Arc::new(Mutex::new(SpyState {
            model: TermModel::new(w, h),
            vt: if with_vt && w >= 2 && h >= 2 {
                Some(vt100::Parser::new(h as u16, w as u16, 0))
            } else {
                None
            },
            report_w: None,
            width_script: Default::default(),
            calls: 0,
            fallible_calls: 0,
            flushes: 0,
            writes: 0,
            tab_seen: false,
            fault: Fault::None,
            faults_injected: 0,
            vt_compares: 0,
            vt_panics: 0,
            vt_mismatch: None,
            log: None,
            frames: None,
        })))
    }

    pub fn st(&self) -> std::sync::MutexGuard<'_, SpyState> {
        self.0.lock().unwrap_or_else(|e| e.into_inner())
    }

    pub fn boxed(&self) -> Box<dyn TermLike> {
        Box::new(self.clone())
    }

    /// The same terminal behind a `TermLike` that leaves `height()` to the trait's default (20 rows)
    #[allow(dead_code)]
    pub fn boxed_default_height(&self) -> Box<dyn TermLike> {
        Box::new(DefaultHeight(self.clone()))
    }

    pub fn doc(&self) -> Vec<String> {
        self.st().model.doc()
    }

    pub fn flushes(&self) -> u64 {
        self.st().flushes
    }

    pub fn calls(&self) -> u64 {
        self.st().calls
    }

    pub fn enable_log(&self) {
        self.st().log = Some(Vec::new());
    }

    /// Plain output written by "someone else" (a suspend closure, ordinary program output).
    pub fn raw_write_line(&self, s: &str) {
        let mut st = self.st();
        st.feed(s);
        st.feed("\r\n");
    }

    fn op(&self, name: &str, arg: &str, bytes: Option<String>) -> io::Result<()> {
        let mut st = self.st();
        st.calls += 1;
        let k = st.fallible_calls;
        st.fallible_calls += 1;
        if let Some(l) = st.log.as_mut() {
            l.push(format!("{}({:?})", name, arg));
        }
        let fail = match st.fault {
            Fault::None => false,
            Fault::Once(i) => i == k,
            Fault::From(i) => k >= i,
        };
        if fail {
            st.faults_injected += 1;
            if let Some(l) = st.log.as_mut() {
                l.push("  -> Err".to_string());
            }
            let kind = match FAULT_KIND.load(std::sync::atomic::Ordering::Relaxed) {
                1 => io::ErrorKind::Interrupted,
                2 => io::ErrorKind::WouldBlock,
                3 => io::ErrorKind::BrokenPipe,
                _ => io::ErrorKind::Other,
            };
            return Err(io::Error::new(kind, "injected terminal fault"));
        }
        if let Some(b) = bytes {
            st.feed(&b);
        }
        Ok(())
    }
}

impl SpyState {
    fn feed(&mut self, s: &str) {
        if s.contains('\t') {
            self.tab_seen = true;
        }
        self.model.write(s);
        if let Some(vt) = self.vt.as_mut() {
            // the vt100 crate has arithmetic slips on degenerate sizes; losing the cross-check
            // is a (counted) loss of assurance, never a verdict
            if crate::util::catch(|| vt.process(s.as_bytes())).is_err() {
                self.vt = None;
                self.vt_panics += 1;
            }
        }
    }

    fn compare_vt(&mut self) {
        let Some(vt) = self.vt.as_ref() else { return };
        self.vt_compares += 1;
        let screen = vt.screen();
        let rows: Vec<String> = screen
            .rows(0, self.model.w as u16)
            .map(|r| r.trim_end_matches(' ').to_string())
            .collect();
        let mine = self.model.visible();
        let (vr, vc) = screen.cursor_position();
        let (r, c, pending) = self.model.cursor();
        let mc = if pending { c + 1 } else { c };
        // vt100 reports col == width while a wrap is pending
        let cursor_ok = vr as usize == r && (vc as usize == mc || (pending && vc as usize == c));
        if rows != mine || !cursor_ok {
            if self.vt_mismatch.is_none() {
                self.vt_mismatch = Some(format!(
                    "model rows {:?} cursor {:?} vs vt100 rows {:?} cursor {:?}",
                    mine,
                    (r, c, pending),
                    rows,
                    (vr, vc)
                ));
            }
        }
    }
}

impl TermLike for Spy {
    fn width(&self) -> u16 {
        let mut st = self.st();
        st.calls += 1;
        if let Some(w) = st.width_script.pop_front() {
            return w;
        }
        st.report_w.unwrap_or(st.model.w as u16)
    }

    fn height(&self) -> u16 {
        let mut st = self.st();
        st.calls += 1;
        st.model.h as u16
    }

    fn move_cursor_up(&self, n: usize) -> io::Result<()> {
        let b = if n == 0 { None } else { Some(format!("\x1b[{n}A")) };
        self.op("up", &n.to_string(), b)
    }

    fn move_cursor_down(&self, n: usize) -> io::Result<()> {
        let b = if n == 0 { None } else { Some(format!("\x1b[{n}B")) };
        self.op("down", &n.to_string(), b)
    }

    fn move_cursor_right(&self, n: usize) -> io::Result<()> {
        let b = if n == 0 { None } else { Some(format!("\x1b[{n}C")) };
        self.op("right", &n.to_string(), b)
    }

    fn move_cursor_left(&self, n: usize) -> io::Result<()> {
        let b = if n == 0 { None } else { Some(format!("\x1b[{n}D")) };
        self.op("left", &n.to_string(), b)
    }

    fn write_line(&self, s: &str) -> io::Result<()> {
        self.st().writes += 1;
        self.op("write_line", s, Some(format!("{s}\r\n")))
    }

    fn write_str(&self, s: &str) -> io::Result<()> {
        self.st().writes += 1;
        // a bare "\n" inside a bar line would be CR LF on a real tty (ONLCR)
        self.op("write_str", s, Some(s.replace('\n', "\r\n")))
    }

    fn clear_line(&self) -> io::Result<()> {
        self.op("clear_line", "", Some("\r\x1b[2K".to_string()))
    }

    fn flush(&self) -> io::Result<()> {
        let r = self.op("flush", "", None);
        if r.is_ok() {
            let mut st = self.st();
            st.flushes += 1;
            st.compare_vt();
            if st.frames.is_some() {
                let t = crate::clock::now_ns();
                let d = st.model.doc();
                if std::env::var("VLOOM_DEBUG").is_ok() {
                    eprintln!("  frame {:?}", d);
                }
                st.frames.as_mut().unwrap().push((t, d));
            }
        }
        r
    }
}

/// Wrap a text into rows of `w` columns the way a deferred-wrap terminal lays it out.
/// An empty (zero-column) text occupies one (blank) row.
pub fn wrap_rows(text: &str, w: usize) -> Vec<String> {
    let mut m = TermModel::new(w, 1);
    m.write(text);
    let mut v: Vec<String> = m.rows.iter().map(|r| TermModel::row_string(r)).collect();
    // a text that exactly fills its last row leaves the cursor pending, no extra row
    if v.is_empty() {
        v.push(String::new());
    }
    v
}

/// A `TermLike` that does not say how high it is.
#[derive(Debug)]
pub struct DefaultHeight(pub Spy);

impl TermLike for DefaultHeight {
    fn width(&self) -> u16 {
        self.0.width()
    }
    fn move_cursor_up(&self, n: usize) -> io::Result<()> {
        self.0.move_cursor_up(n)
    }
    fn move_cursor_down(&self, n: usize) -> io::Result<()> {
        self.0.move_cursor_down(n)
    }
    fn move_cursor_right(&self, n: usize) -> io::Result<()> {
        self.0.move_cursor_right(n)
    }
    fn move_cursor_left(&self, n: usize) -> io::Result<()> {
        self.0.move_cursor_left(n)
    }
    fn write_line(&self, s: &str) -> io::Result<()> {
        self.0.write_line(s)
    }
    fn write_str(&self, s: &str) -> io::Result<()> {
        self.0.write_str(s)
    }
    fn clear_line(&self) -> io::Result<()> {
        self.0.clear_line()
    }
    fn flush(&self) -> io::Result<()> {
        self.0.flush()
    }
}
