//! C01 — single-bar redraw integrity: terminal == printed lines ++ current frame.
//!
//! HIST engine over one bar on `term_like(spy)` (no limiter).  After every operation the document
//! of the terminal model must equal `logs ++ wrap(W, frame(reference state))`, and ordinary output
//! written afterwards must start at column 0 of the first row below it.

use crate::report::{hash_of, Dfs, Hist, Shard, Stats, Verdict, Violation};
use crate::term::{wrap_rows, Spy};
use crate::util::{catch, panic_class};
use crate::{clock, Meta, Tier};
use indicatif::{ProgressBar, ProgressDrawTarget, ProgressStyle};
use serde_json::{json, Value};

pub const TEMPLATES: [&str; 5] = ["{msg}", "{prefix}{msg}\n{pos}/{len}", "{spinner} {wide_msg}", "{wide_bar} {pos}", "{k}{msg}"];
/// what the custom key `k` of template 4 writes: two lines
pub const KEY_OUT: &str = "p\nq";
const TICKS: &str = "01234 ";

#[derive(Clone, Debug, PartialEq)]
pub enum Op {
    /// the terminal is widened: from now on it reports its full width
    Widen,
    Tick,
    Inc,
    SetPosToLen,
    SetLength7,
    Msg(usize),
    Prefix,
    Style(usize),
    Println(usize),
    SuspendEmpty,
    SuspendOut,
    Reset,
    Finish,
    FinishClear,
    FinishMsg,
    Abandon,
    AbandonMsg,
}

pub fn msg_text(i: usize, w: usize) -> String {
    match i {
        0 => String::new(),
        1 => "m".into(),
        2 => (0..2 * w + 1).map(|k| (b'a' + (k % 26) as u8) as char).collect(),
        3 => "x\ny".into(),
        4 => "\nz".into(),
        5 => "\x1b[1m\x1b[0m".into(),
        // double-width text, wider than the terminal (truncated by {wide_msg}, wrapped otherwise)
        6 => "日本語".repeat(w / 3 + 1),
        // as many characters as columns although it holds double-width characters (each followed by a
        // zero-width combining mark), longer than the terminal
        8 => format!("a{}", "か\u{3099}".repeat(w / 2 + 1)),
        _ => "t\n".into(),
    }
}

pub fn log_text(i: usize, w: usize) -> String {
    match i {
        0 => String::new(),
        1 => "log".into(),
        2 => (0..w + 1).map(|k| (b'0' + (k % 10) as u8) as char).collect(),
        _ => "l1\nl2".into(),
    }
}

#[derive(Clone, Copy, PartialEq, Eq, Hash, Debug)]
pub enum Status {
    InProgress,
    DoneVisible,
    DoneHidden,
}

/// Reference state of one bar.
#[derive(Clone, Debug)]
pub struct RefBar {
    pub pos: u64,
    pub len: Option<u64>,
    pub msg: String,
    pub prefix: String,
    pub tpl: usize,
    pub status: Status,
    pub tick: u64,
}

impl RefBar {
    pub fn finish(&mut self) {
        if let Some(l) = self.len {
            self.pos = l;
        }
    }
}

/// text the reference renderer can lay out itself: no control characters or escape sequences
fn plain_ascii(s: &str) -> bool {
    s.chars().all(|c| !c.is_control())
}

/// Independent reference renderer for the four C01 templates: unwrapped frame lines, or `None`
/// when the combination is outside what the reference defines (then the differential oracle is used).
pub fn render_ref(b: &RefBar, w: usize) -> Option<Vec<String>> {
    if b.status == Status::DoneHidden {
        return Some(vec![]);
    }
    let len = b.len.unwrap_or(b.pos);
    let mut lines: Vec<String> = Vec::new();
    match b.tpl {
        0 => {
            if !b.msg.is_empty() {
                lines.extend(b.msg.split('\n').map(|s| s.to_string()));
            }
        }
        1 => {
            let first = format!("{}{}", b.prefix, b.msg);
            lines.extend(first.split('\n').map(|s| s.to_string()));
            lines.push(format!("{}/{}", b.pos, len));
        }
        4 => {
            let all = format!("{}{}", KEY_OUT, b.msg);
            lines.extend(all.split('\n').map(|s| s.to_string()));
        }
        2 => {
            if !plain_ascii(&b.msg) {
                return None;
            }
            let n = TICKS.chars().count() as u64;
            let sp = if b.status == Status::InProgress {
                TICKS.chars().nth((b.tick % (n - 1)) as usize).unwrap()
            } else {
                TICKS.chars().last().unwrap()
            };
            let left = w.saturating_sub(2);
            // a truncating field: whole characters from the start that fit into `left` columns
            let mut shown = String::new();
            let mut cols = 0;
            for c in b.msg.chars() {
                let cw = crate::term::char_width(c);
                if cols + cw > left {
                    break;
                }
                cols += cw;
                shown.push(c);
            }
            lines.push(format!("{} {}", sp, shown.trim_end()));
        }
        _ => {
            let tail = format!(" {}", b.pos);
            let cells = w.saturating_sub(tail.len());
            let filled = match b.len {
                None => 0,
                Some(0) => cells,
                Some(l) => {
                    if b.pos >= l {
                        cells
                    } else {
                        ((b.pos as u128 * cells as u128) / l as u128) as usize
                    }
                }
            };
            lines.push(format!("{}{}{}", "█".repeat(filled), "░".repeat(cells - filled), tail));
        }
    }
    Some(lines)
}

pub fn style_for(tpl: usize) -> ProgressStyle {
    ProgressStyle::with_template(TEMPLATES[tpl]).unwrap().tick_chars(TICKS).with_key("k", |_: &indicatif::ProgressState, w: &mut dyn std::fmt::Write| w.write_str(KEY_OUT).unwrap())
}

/// Differential oracle: rows a *fresh* bar in the same logical state paints on a clean terminal.
pub fn render_fresh(b: &RefBar, w: usize) -> Vec<String> {
    if b.status == Status::DoneHidden {
        return vec![];
    }
    let spy = Spy::new(w, 400, false);
    let pb = ProgressBar::with_draw_target(b.len, ProgressDrawTarget::term_like(spy.boxed()))
        .with_style(style_for(b.tpl))
        .with_message(b.msg.clone())
        .with_prefix(b.prefix.clone())
        .with_position(b.pos);
    let n = TICKS.chars().count() as u64 - 1;
    for _ in 0..(b.tick % n) {
        pb.tick();
    }
    if b.status == Status::DoneVisible {
        pb.abandon();
    } else {
        pb.force_draw();
    }
    let mut st = spy.st();
    let mut rows = st.model.doc();
    // keep a trailing blank row if the frame ends with a zero-width line: recover from cursor
    let cur = st.model.cursor_abs_row();
    while rows.len() < cur + 1 && st.flushes > 0 && st.writes > 0 {
        rows.push(String::new());
    }
    st.log = None;
    drop(st);
    pb.abandon();
    rows
}

pub fn frame_rows(b: &RefBar, w: usize, stats: &mut Stats) -> Vec<String> {
    match render_ref(b, w) {
        Some(lines) => lines.iter().flat_map(|l| wrap_rows(l, w)).collect(),
        None => {
            stats.bump("differential_frames", 1);
            render_fresh(b, w)
        }
    }
}

pub struct C01 {
    /// the terminal reports this (smaller) width until it is widened to `w` by Op::Widen
    pub widen_from: Option<usize>,
    pub w: usize,
    pub h: usize,
    pub tpl0: usize,
    pub vt: bool,
    pub reduced: bool,
    /// focus alphabet: a custom key that writes two lines, text with zero-width characters
    pub extra: bool,
}

impl C01 {
    fn config(&self) -> String {
        match self.widen_from {
            Some(w0) => format!("W={} (reports {} until widened) H={} initial_template={:?}", self.w, w0, self.h, TEMPLATES[self.tpl0]),
            None => format!("W={} H={} initial_template={:?}", self.w, self.h, TEMPLATES[self.tpl0]),
        }
    }
}

pub fn trimmed(mut v: Vec<String>) -> Vec<String> {
    while v.last().map_or(false, |s| s.is_empty()) {
        v.pop();
    }
    v
}

impl Hist for C01 {
    type Op = Op;

    fn alphabet(&self, prefix: &[Op]) -> Vec<Op> {
        if self.widen_from.is_some() {
            // short texts only: nothing may depend on how a real terminal reflows when it is resized
            let mut v = vec![Op::Tick, Op::Inc, Op::Msg(0), Op::Msg(1), Op::Msg(3), Op::Style(2), Op::Style(3), Op::Style(1), Op::Println(1), Op::Println(3), Op::SuspendOut, Op::Finish, Op::FinishClear, Op::Reset];
            if !prefix.contains(&Op::Widen) {
                v.push(Op::Widen);
            }
            return v;
        }
        if self.extra {
            return vec![Op::Tick, Op::Inc, Op::Msg(0), Op::Msg(1), Op::Msg(8), Op::Msg(3), Op::Style(4), Op::Style(0), Op::Println(1), Op::SuspendOut, Op::Reset, Op::Finish, Op::FinishClear, Op::FinishMsg];
        }
        let mut v = vec![Op::Tick, Op::Inc, Op::SetPosToLen, Op::SetLength7];
        v.extend((0..8).filter(|&i| i != 6 || self.w >= 2).map(Op::Msg));
        v.push(Op::Prefix);
        v.extend((0..4).filter(|&i| !self.reduced || i < 2).map(Op::Style));
        v.extend((0..4).map(Op::Println));
        v.extend([Op::SuspendEmpty, Op::SuspendOut, Op::Reset, Op::Finish, Op::FinishClear, Op::FinishMsg, Op::Abandon, Op::AbandonMsg]);
        v
    }

    fn run(&self, hist: &[Op], stats: &mut Stats) -> Verdict {
        clock::reset();
        let mut w = self.widen_from.unwrap_or(self.w);
        let spy = Spy::new(self.w, self.h, self.vt);
        if let Some(w0) = self.widen_from {
            spy.st().report_w = Some(w0 as u16);
        }
        let pb = ProgressBar::with_draw_target(Some(5), ProgressDrawTarget::term_like(spy.boxed()))
            .with_style(style_for(self.tpl0));
        let mut rb = RefBar { pos: 0, len: Some(5), msg: String::new(), prefix: String::new(), tpl: self.tpl0, status: Status::InProgress, tick: 0 };
        let mut logs: Vec<String> = Vec::new();
        let mut frame: Vec<String> = Vec::new();
        let shown: Vec<String> = hist.iter().map(|o| format!("{:?}", o)).collect();

        for (i, op) in hist.iter().enumerate() {
            clock::advance_ms(1000);
            let mut draws = true;
            let spy2 = spy.clone();
            if *op == Op::Widen {
                spy.st().report_w = None;
                w = self.w;
            }
            let r = catch(|| match op {
                Op::Widen => {}
                Op::Tick => pb.tick(),
                Op::Inc => pb.inc(1),
                Op::SetPosToLen => pb.set_position(pb.length().unwrap_or(3)),
                Op::SetLength7 => pb.set_length(7),
                Op::Msg(k) => pb.set_message(msg_text(*k, w)),
                Op::Prefix => pb.set_prefix("p"),
                Op::Style(k) => pb.set_style(style_for(*k)),
                Op::Println(k) => pb.println(log_text(*k, w)),
                Op::SuspendEmpty => pb.suspend(|| ()),
                Op::SuspendOut => pb.suspend(|| spy2.raw_write_line("out")),
                Op::Reset => pb.reset(),
                Op::Finish => pb.finish(),
                Op::FinishClear => pb.finish_and_clear(),
                Op::FinishMsg => pb.finish_with_message("done"),
                Op::Abandon => pb.abandon(),
                Op::AbandonMsg => pb.abandon_with_message("ab"),
            });
            if let Err(p) = r {
                let _ = catch(move || drop(pb));
                return Verdict::Bad(Violation {
                    class: format!("panic: {}", panic_class(&p)),
                    config: self.config(),
                    history: shown[..=i].to_vec(),
                    detail: p,
                });
            }
            match op {
                Op::Widen => draws = false,
                Op::Tick => rb.tick += 1,
                Op::Inc => {
                    rb.pos += 1;
                    rb.tick += 1;
                }
                Op::SetPosToLen => {
                    rb.pos = rb.len.unwrap_or(3);
                    rb.tick += 1;
                }
                Op::SetLength7 => rb.len = Some(7),
                Op::Msg(k) => rb.msg = msg_text(*k, w),
                Op::Prefix => rb.prefix = "p".into(),
                Op::Style(k) => {
                    rb.tpl = *k;
                    draws = false;
                }
                Op::Println(k) => {
                    let t = log_text(*k, w);
                    if t.is_empty() {
                        logs.push(String::new());
                    } else {
                        for l in t.lines() {
                            logs.extend(wrap_rows(l, w));
                        }
                    }
                }
                Op::SuspendEmpty => {}
                Op::SuspendOut => logs.extend(wrap_rows("out", w)),
                Op::Reset => {
                    rb.pos = 0;
                    rb.status = Status::InProgress;
                }
                Op::Finish => {
                    rb.finish();
                    rb.status = Status::DoneVisible;
                }
                Op::FinishClear => {
                    rb.finish();
                    rb.status = Status::DoneHidden;
                }
                Op::FinishMsg => {
                    rb.finish();
                    rb.msg = "done".into();
                    rb.status = Status::DoneVisible;
                }
                Op::Abandon => rb.status = Status::DoneVisible,
                Op::AbandonMsg => {
                    rb.msg = "ab".into();
                    rb.status = Status::DoneVisible;
                }
            }
            if draws {
                frame = frame_rows(&rb, w, stats);
                // the property quantifies over heights in which the frame fits
                if frame.len() > self.h {
                    let _ = catch(move || drop(pb));
                    return Verdict::Ok { hash: hash_of(&("frame does not fit", i)), nontrivial: false };
                }
            }
        }

        let (doc, probe, cursor, flushes, vt_cmp, vt_mis) = {
            let st = spy.st();
            (st.model.doc(), st.model.probe_output_position(), st.model.cursor(), st.flushes, st.vt_compares, st.vt_mismatch.clone())
        };
        stats.vt_compares += vt_cmp;
        let _ = catch(move || drop(pb));
        if let Some(m) = vt_mis {
            return Verdict::Machinery(format!("terminal model disagrees with vt100: {m} on {:?} ({})", shown, self.config()));
        }
        if flushes == 0 {
            return Verdict::Ok { hash: hash_of(&("nothing drawn", rb.tpl)), nontrivial: false };
        }
        let mut expected_full = logs.clone();
        expected_full.extend(frame.iter().cloned());
        let expected = trimmed(expected_full.clone());
        if doc != expected {
            let class = classify(&logs, &frame, &doc);
            return Verdict::Bad(Violation {
                class,
                config: self.config(),
                history: shown,
                detail: format!("expected document {:?}, terminal shows {:?}", expected, doc),
            });
        }
        if self.widen_from.is_none() && probe != (expected_full.len(), 0) {
            return Verdict::Bad(Violation {
                class: "fresh-line: ordinary output after the draw does not start at column 0 below the frame".into(),
                config: self.config(),
                history: shown,
                detail: format!("expected output at row {} col 0, would land at row {} col {}; document {:?}", expected_full.len(), probe.0, probe.1, doc),
            });
        }
        stats.outcomes.insert(hash_of(&doc));
        let h = hash_of(&(&doc, cursor, rb.pos, rb.len, &rb.msg, &rb.prefix, rb.tpl, rb.status, rb.tick % 5));
        Verdict::Ok { hash: h, nontrivial: !doc.is_empty() }
    }
}

/// Characterise a document mismatch: which part of `logs ++ frame` is wrong.
pub fn classify(logs: &[String], frame: &[String], doc: &[String]) -> String {
    let log_ok = doc.len() >= trimmed(logs.to_vec()).len() && doc.iter().zip(logs.iter()).all(|(a, b)| a == b);
    let first_frame_blank = frame.first().map_or(false, |s| s.is_empty());
    if !log_ok {
        if first_frame_blank {
            "document: a printed line is erased/overwritten (frame whose first row is blank after a text-only draw)".into()
        } else {
            "document: a printed line is erased/overwritten".into()
        }
    } else if doc.len() > logs.len() + frame.len() {
        "document: residue below/inside the frame".into()
    } else if first_frame_blank {
        "document: frame misplaced (first frame row blank)".into()
    } else {
        "document: frame differs from the current rendering".into()
    }
}

fn configs(tier: Tier) -> Vec<(C01, usize)> {
    let mut v = Vec::new();
    match tier {
        Tier::Quick => {
            for &w in &[1usize, 3, 8, 20] {
                for tpl0 in [0usize, 1] {
                    v.push((C01 { widen_from: None, w, h: 40, tpl0, vt: w == 8, reduced: false, extra: false }, 4));
                }
            }
            v.push((C01 { widen_from: None, w: 8, h: 40, tpl0: 1, vt: false, reduced: true, extra: false }, 4));
            v.push((C01 { widen_from: None, w: 3, h: 40, tpl0: 0, vt: false, reduced: true, extra: false }, 4));
            // terminals exactly as high as the frame (histories in which a frame does not fit are skipped)
            v.push((C01 { widen_from: None, w: 20, h: 2, tpl0: 1, vt: false, reduced: false, extra: false }, 3));
            v.push((C01 { widen_from: None, w: 8, h: 1, tpl0: 0, vt: false, reduced: false, extra: false }, 3));
            v.push((C01 { widen_from: None, w: 3, h: 3, tpl0: 1, vt: true, reduced: true, extra: false }, 4));
            // a custom key that writes two lines; as many characters as columns with double-width ones among them
            for w in [3usize, 5, 8] {
                v.push((C01 { widen_from: None, w, h: 40, tpl0: 4, vt: false, reduced: false, extra: true }, 4));
            }
            // a terminal that is widened between two operations (it reported 12 columns, then 30)
            v.push((C01 { widen_from: Some(12), w: 30, h: 40, tpl0: 3, vt: false, reduced: false, extra: false }, 4));
            v.push((C01 { widen_from: Some(12), w: 30, h: 40, tpl0: 2, vt: false, reduced: false, extra: false }, 3));
        }
        Tier::Thorough => {
            for &w in &[1usize, 2, 3, 8, 20] {
                for tpl0 in 0..4usize {
                    v.push((C01 { widen_from: None, w, h: 60, tpl0, vt: true, reduced: false, extra: false }, 4));
                }
            }
            v.push((C01 { widen_from: None, w: 8, h: 60, tpl0: 1, vt: false, reduced: false, extra: false }, 5));
            v.push((C01 { widen_from: None, w: 3, h: 60, tpl0: 0, vt: false, reduced: false, extra: false }, 5));
            for tpl0 in 0..4usize {
                v.push((C01 { widen_from: Some(12), w: 30, h: 60, tpl0, vt: false, reduced: false, extra: false }, 5));
            }
            for w in [2usize, 3, 5, 8, 9] {
                for tpl0 in [0usize, 4] {
                    v.push((C01 { widen_from: None, w, h: 60, tpl0, vt: false, reduced: false, extra: true }, 5));
                }
            }
            for (w, h, tpl0) in [(20usize, 2usize, 1usize), (8, 1, 0), (3, 3, 1), (20, 1, 2), (8, 2, 3), (2, 4, 1)] {
                v.push((C01 { widen_from: None, w, h, tpl0, vt: w >= 2 && h >= 2, reduced: false, extra: false }, 4));
            }
        }
    }
    v
}

pub fn run(tier: Tier, shard: Shard, stats: &mut Stats) {
    for (cfg, depth) in configs(tier) {
        let mut dfs = Dfs::new(&cfg, depth, shard, 2);
        dfs.explore(stats);
    }
    // the same integrity law on rate-limited targets, where most draws are skipped
    // (standalone bar on term_like_with_hz: document == logs ++ frame of the last completed draw)
    crate::c04s::run(tier, shard, stats);
}

pub fn meta(tier: Tier) -> Meta {
    let cfgs: Vec<Value> = configs(tier)
        .iter()
        .map(|(c, d)| json!({"W": c.w, "H": c.h, "initial_template": TEMPLATES[c.tpl0], "depth": d, "vt100_lockstep": c.vt, "alphabet": c.alphabet(&[]).len()}))
        .collect();
    Meta {
        level: "model_checking",
        rule: "stateless DFS over all operation histories up to the stated depth for every configuration; each node replays its history through the public API of the unmodified crate on a fresh bar + terminal model and judges the last operation; a state is (document, cursor, reference bar state); non-trivial = something is on screen".into(),
        assumptions: vec![
            "terminal = deferred-wrap VT100 model (harness/src/term.rs), cross-checked against the vt100 crate at every flush in the lock-step configurations".into(),
            "virtual clock advanced 1 s between operations so the position bucket never skips a draw (throttling is C05)".into(),
            "frame reference: independent renderer for 4 templates; differential fresh-bar rendering only for {wide_msg} with multi-line/escape messages".into(),
            "rate-limited part: standalone bar on term_like_with_hz(1 | 255) and unlimited, histories over burn/idle/tick/inc/set_message/set_length/println/suspend/reset/finish*/drop/wrap_iter; the document must be logs ++ the frame of the last completed draw".into(),
        ],
        bounds: json!({"configurations": cfgs}),
        exhaustive: true,
    }
}

pub fn replay(v: &Value) -> i32 {
    let hist: Vec<String> = v["history"].as_array().map(|a| a.iter().map(|s| s.as_str().unwrap_or("").to_string()).collect()).unwrap_or_default();
    let cfg_s = v["config"].as_str().unwrap_or("");
    for tier in [Tier::Quick, Tier::Thorough] {
        for (cfg, _) in configs(tier) {
            if cfg.config() != cfg_s {
                continue;
            }
            return crate::replay_hist(&cfg, &hist, "C01");
        }
    }
    eprintln!("no configuration matches {cfg_s}");
    2
}
