//! Configurations of the MultiProgress HIST engine for C02, C03, C04 and C19.

use crate::multi::{Cfg, Op};
use crate::report::{Dfs, Hist, Shard, Stats};
use crate::{Meta, Tier};
use serde_json::{json, Value};

fn two_drawn() -> Vec<Op> {
    vec![Op::Add, Op::Add, Op::Tick(0), Op::Tick(1)]
}

/// three bars drawn, limiter exhausted; b finished and dropped while not first, then a dropped:
/// b now heads the order as a zombie that has not been reaped yet, c is live
fn deferred_zombie() -> Vec<Op> {
    vec![Op::Add, Op::Add, Op::Add, Op::Tick(0), Op::Tick(1), Op::Tick(2), Op::Burn(0), Op::Finish(1), Op::DropBar(1), Op::DropBar(0)]
}

/// finish / drop / suspend / println only: every order in which two bars finish and are dropped,
/// interleaved with output (deep histories over a small alphabet)
fn focus_finish_drop_print(o: &Op) -> bool {
    matches!(o, Op::Finish(_) | Op::DropBar(_) | Op::MpSuspend | Op::MpPrintln | Op::BarPrintln(0) | Op::MpClear)
}

/// everything on screen is static text (finished bars left behind, one bar cleared) when suspend output,
/// printed lines and a bar that comes back arrive
fn focus_static_then_output(o: &Op) -> bool {
    matches!(o, Op::FinishClear(_) | Op::Finish(_) | Op::DropBar(_) | Op::Tick(_) | Op::BarSuspend(1) | Op::MpSuspend | Op::MpSuspendEmpty | Op::MpPrintln)
}

/// three finished bars above a live one: every order of dropping them, with draws of the live bar in between
fn focus_drop_orders(o: &Op) -> bool {
    matches!(o, Op::DropBar(0) | Op::DropBar(1) | Op::DropBar(2) | Op::Tick(3) | Op::MpPrintln | Op::MpClear)
}

fn drop_orders_cfg(name: &'static str, w: usize, h: usize, tier: Tier) -> (Cfg, usize) {
    let mut c = Cfg::base(name, w, h);
    c.max_bars = 4;
    c.fin_rot = 0;
    c.msgs = vec![];
    c.root = vec![Op::Add, Op::Add, Op::Add, Op::Add, Op::Tick(0), Op::Tick(1), Op::Tick(2), Op::Tick(3), Op::Finish(0), Op::Finish(1), Op::Finish(2)];
    c.only = Some(focus_drop_orders);
    (c, if tier == Tier::Quick { 5 } else { 6 })
}

/// growing and shrinking a bottom-aligned region: add, tick the newest and the first bar, remove,
/// finish and drop the first bar
fn focus_bottom_growth(o: &Op) -> bool {
    matches!(o, Op::Add | Op::Tick(0) | Op::Tick(3) | Op::Tick(4) | Op::Remove(1) | Op::Remove(2) | Op::Finish(0) | Op::DropBar(0) | Op::MpPrintln | Op::MpSuspend | Op::MpClear)
}

fn focus_cfgs(tier: Tier) -> Vec<(Cfg, usize)> {
    let mut v = Vec::new();
    let mut c = Cfg::base("focus-finish-drop-print", 20, 40);
    c.root = pre_logs(1, two_drawn());
    c.only = Some(focus_finish_drop_print);
    v.push((c, if tier == Tier::Quick { 6 } else { 7 }));
    let mut c = Cfg::base("focus-finish-drop-print-hz1", 20, 40);
    c.hz = Some(1);
    c.root = pre_logs(1, vec![Op::Add, Op::Add, Op::Tick(0), Op::Tick(1), Op::Burn(0)]);
    c.only = Some(focus_finish_drop_print);
    v.push((c, if tier == Tier::Quick { 5 } else { 6 }));
    for rot in [0usize, 3] {
        let mut c = Cfg::base("focus-static-then-output", 20, 40);
        c.root = pre_logs(1, two_drawn());
        c.fin_rot = rot;
        c.max_bars = 2;
        c.only = Some(focus_static_then_output);
        v.push((c, if tier == Tier::Quick { 5 } else { 6 }));
    }
    let mut c = Cfg::base("focus-bottom-growth", 20, 40);
    c.root = pre_logs(1, vec![Op::AlignBottom, Op::Add, Op::Add, Op::Add, Op::Tick(0), Op::Tick(1), Op::Tick(2)]);
    c.max_bars = 5;
    c.msgs = vec![];
    c.only = Some(focus_bottom_growth);
    v.push((c, if tier == Tier::Quick { 7 } else { 8 }));
    v
}

fn pre_logs(n: usize, mut rest: Vec<Op>) -> Vec<Op> {
    let mut v: Vec<Op> = (0..n).map(|_| Op::MpPrintln).collect();
    v.append(&mut rest);
    v
}

pub fn c02_configs(tier: Tier) -> Vec<(Cfg, usize)> {
    let mut v = Vec::new();
    let d = 4;
    // from empty
    let mut c = Cfg::base("c02-empty", 20, 40);
    c.vt = true;
    v.push((c, if tier == Tier::Quick { d } else { d + 1 }));
    // two bars drawn, alignment ops
    let mut c = Cfg::base("c02-two-drawn-align", 20, 40);
    c.root = pre_logs(1, two_drawn());
    c.align = true;
    v.push((c, d));
    // empty and multi-line printed lines among three drawn bars
    let mut c = Cfg::base("c02-odd-logs", 20, 40);
    c.root = pre_logs(1, vec![Op::Add, Op::Add, Op::Add, Op::Tick(0), Op::Tick(1), Op::Tick(2)]);
    c.odd_logs = true;
    c.inserts = false;
    c.msgs = vec!["m".into()];
    v.push((c, d));
    // three bars, middle finished (visible) and dropped
    let mut c = Cfg::base("c02-three-mid-zombie", 20, 40);
    c.root = vec![Op::Add, Op::Add, Op::Add, Op::Tick(0), Op::Tick(1), Op::Tick(2), Op::Finish(1), Op::DropBar(1)];
    c.max_bars = 4;
    v.push((c, d));
    // a member slot freed by a lazily reaped zombie has been reused by a new bar
    let mut c = Cfg::base("c02-slot-reuse", 20, 40);
    c.root = vec![Op::Add, Op::Add, Op::Add, Op::Tick(0), Op::Tick(1), Op::Tick(2), Op::Finish(1), Op::DropBar(1), Op::DropBar(0), Op::Tick(2), Op::Add, Op::Tick(3)];
    c.max_bars = 4;
    c.suspend = false;
    c.bar_println = false;
    v.push((c, d));
    // rate-limited target, limiter exhausted, a zombie waiting at the head of the order
    let mut c = Cfg::base("c02-hz1-deferred-zombie", 20, 40);
    c.hz = Some(1);
    c.root = pre_logs(2, deferred_zombie());
    c.max_bars = 4;
    c.inserts = false;
    c.suspend = false;
    c.limiter_ops = true;
    c.msgs = vec!["m".into()];
    v.push((c, d));
    // two-line template, different finish rotation
    let mut c = Cfg::base("c02-two-line", 20, 40);
    c.two_line = true;
    c.fin_rot = 2;
    c.root = two_drawn();
    v.push((c, d));
    // renderings exactly two and three terminal widths long (the last row ends at the right edge)
    let mut c = Cfg::base("c02-exact-multiples", 6, 40);
    c.root = pre_logs(1, two_drawn());
    c.inserts = false;
    c.suspend = false;
    c.msgs = vec!["q".repeat(10), "q".repeat(16)];
    v.push((c, if tier == Tier::Quick { 3 } else { 4 }));
    if tier == Tier::Thorough {
        let mut c = Cfg::base("c02-empty-deep", 20, 40);
        c.suspend = false;
        c.bar_println = false;
        v.push((c, 5));
        let mut c = Cfg::base("c02-two-drawn-deep", 20, 40);
        c.root = pre_logs(1, two_drawn());
        c.fin_rot = 3;
        v.push((c, 5));
        let mut c = Cfg::base("c02-narrow", 7, 40);
        c.root = two_drawn();
        c.msgs = vec!["m".into(), "n".repeat(9)];
        c.align = true;
        c.vt = true;
        v.push((c, 4));
    }
    v.extend(focus_cfgs(tier));
    v
}

pub fn c03_configs(tier: Tier) -> Vec<(Cfg, usize)> {
    let mut v = Vec::new();
    let d = if tier == Tier::Quick { 3 } else { 4 };
    // three log lines first, two bars drawn
    let mut c = Cfg::base("c03-logs-two-drawn", 20, 40);
    c.root = pre_logs(3, two_drawn());
    c.inserts = false;
    c.vt = true;
    v.push((c, if tier == Tier::Quick { d + 1 } else { d }));
    // a terminal too short for the first bar: printed lines while no bar line fits
    for (w, h) in [(5usize, 2usize), (4, 1)] {
        let mut c = Cfg::base("c03-short-terminal", w, h);
        c.height_clauses = true;
        c.max_bars = 2;
        c.inserts = false;
        c.suspend = false;
        c.bar_println = false;
        c.remove = false;
        c.clear_only = true;
        c.odd_logs = true;
        c.root = pre_logs(1, vec![]);
        c.msgs = vec!["q".into(), "q".repeat(3 * w)];
        v.push((c, d + 1));
    }
    // bar lines that wrap at a double-width character
    let mut c = Cfg::base("c03-wide-wrap", 7, 40);
    c.root = pre_logs(2, two_drawn());
    c.inserts = false;
    c.remove = false;
    c.msgs = vec!["m".into(), "世界世界世界".into(), "a世界世".into()];
    v.push((c, d));
    // printed lines exactly as wide as the terminal, followed by empty ones
    let mut c = Cfg::base("c03-exact-width-logs", 10, 40);
    c.root = pre_logs(1, two_drawn());
    c.log_len = 10;
    c.odd_logs = true;
    c.inserts = false;
    c.remove = false;
    c.msgs = vec!["m".into()];
    v.push((c, d));
    // empty and multi-line printed lines
    let mut c = Cfg::base("c03-odd-logs", 20, 40);
    c.root = pre_logs(1, two_drawn());
    c.odd_logs = true;
    c.inserts = false;
    c.msgs = vec!["m".into()];
    v.push((c, d));
    // rate limited, limiter exhausted, frozen clock
    let mut c = Cfg::base("c03-hz1-exhausted", 20, 40);
    c.hz = Some(1);
    c.root = pre_logs(3, vec![Op::Add, Op::Add, Op::Tick(0), Op::Tick(1), Op::Burn(0)]);
    c.inserts = false;
    c.limiter_ops = true;
    v.push((c, if tier == Tier::Quick { d + 1 } else { d }));
    // long log lines (wrapping) and bottom alignment
    let mut c = Cfg::base("c03-long-logs-align", 10, 40);
    c.root = pre_logs(2, two_drawn());
    c.log_len = 11;
    c.msgs = vec!["m".into(), "n".repeat(12)];
    c.align = true;
    c.inserts = false;
    v.push((c, d));
    // rate-limited target, limiter exhausted, a zombie waiting at the head of the order
    let mut c = Cfg::base("c03-hz1-deferred-zombie", 20, 40);
    c.hz = Some(1);
    c.root = pre_logs(3, deferred_zombie());
    c.max_bars = 4;
    c.inserts = false;
    c.suspend = false;
    c.remove = false;
    c.limiter_ops = true;
    c.msgs = vec!["m".into()];
    v.push((c, d));
    // bottom alignment with three bars: shrinking regions, padding, text
    let mut c = Cfg::base("c03-bottom-three", 20, 40);
    c.root = pre_logs(2, vec![Op::AlignBottom, Op::Add, Op::Add, Op::Add, Op::Tick(0), Op::Tick(1), Op::Tick(2)]);
    c.inserts = false;
    c.remove = false;
    c.suspend = tier == Tier::Thorough;
    c.msgs = vec!["m".into()];
    v.push((c, d + 1));
    // the same text printed again and again (an unchanged frame must still be painted)
    let mut c = Cfg::base("c03-same-text", 20, 40);
    c.root = pre_logs(2, two_drawn());
    c.same_log_text = true;
    c.inserts = false;
    c.remove = false;
    v.push((c, d));
    // zombies: both bars finished visibly, then exploration
    let mut c = Cfg::base("c03-finished-pair", 20, 40);
    c.root = pre_logs(3, vec![Op::Add, Op::Add, Op::Tick(0), Op::Tick(1), Op::Finish(1), Op::Finish(0)]);
    c.inserts = false;
    v.push((c, d));
    if tier == Tier::Thorough {
        let mut c = Cfg::base("c03-logs-two-drawn-deep", 20, 40);
        c.root = pre_logs(3, two_drawn());
        c.inserts = false;
        v.push((c, 5));
        let mut c = Cfg::base("c03-hz1-exhausted-deep", 20, 40);
        c.hz = Some(1);
        c.root = pre_logs(3, vec![Op::Add, Op::Add, Op::Tick(0), Op::Tick(1), Op::Burn(0)]);
        c.inserts = false;
        c.limiter_ops = true;
        c.suspend = false;
        v.push((c, 5));
        let mut c = Cfg::base("c03-hz255", 20, 40);
        c.hz = Some(255);
        c.root = pre_logs(3, vec![Op::Add, Op::Add, Op::Tick(0), Op::Tick(1), Op::Burn(0)]);
        c.limiter_ops = true;
        c.inserts = false;
        v.push((c, 4));
    }
    v.extend(focus_cfgs(tier));
    v
}

pub fn c04_configs(tier: Tier) -> Vec<(Cfg, usize)> {
    let mut v = Vec::new();
    let d = if tier == Tier::Quick { 3 } else { 4 };
    for rot in 0..5usize {
        // every on_finish variant lands on bar a / b in turn; limiter exhausted
        let mut c = Cfg::base("c04-hz1-exhausted", 20, 40);
        c.hz = Some(1);
        c.fin_rot = rot;
        c.root = vec![Op::Add, Op::Add, Op::Tick(0), Op::Tick(1), Op::Burn(0)];
        c.inserts = false;
        c.suspend = false;
        c.bar_println = false;
        c.limiter_ops = true;
        c.msgs = vec!["m".into()];
        v.push((c, d));
    }
    v.push(drop_orders_cfg("c04-finished-drop-orders", 20, 40, tier));
    // move-cursor mode with a single bar: a clearing finish (explicit, or the default one at drop) takes
    // the bar off the screen, a visible one leaves its final state
    for rot in [0usize, 1, 3] {
        let mut c = Cfg::base("c04-move-cursor-single", 20, 40);
        c.move_cursor = true;
        c.max_bars = 1;
        c.fin_rot = rot;
        c.root = vec![Op::Add, Op::Tick(0)];
        c.msgs = vec![];
        c.only = Some(|o| matches!(o, Op::Tick(_) | Op::Inc(_) | Op::Finish(_) | Op::FinishClear(_) | Op::Abandon(_) | Op::DropBar(_) | Op::Idle));
        v.push((c, 3));
    }
    let mut c = Cfg::base("c04-three-bars-all-orders", 20, 40);
    c.root = vec![Op::Add, Op::Add, Op::Add, Op::Tick(0), Op::Tick(1), Op::Tick(2)];
    c.inserts = false;
    c.suspend = false;
    c.bar_println = false;
    c.remove = false;
    c.clear = false;
    c.msgs = vec![];
    v.push((c, if tier == Tier::Quick { 4 } else { 6 }));
    // limiter exhausted and a zombie waiting at the head of the order: its row must survive refused draws
    let mut c = Cfg::base("c04-hz1-deferred-zombie", 20, 40);
    c.hz = Some(1);
    c.root = deferred_zombie();
    c.max_bars = 3;
    c.inserts = false;
    c.suspend = false;
    c.bar_println = false;
    c.remove = false;
    c.clear = false;
    c.limiter_ops = true;
    c.msgs = vec!["m".into()];
    v.push((c, d + 1));
    // finishing a bar that lives in a recycled member slot
    let mut c = Cfg::base("c04-slot-reuse", 20, 40);
    c.root = vec![Op::Add, Op::Add, Op::Add, Op::Tick(0), Op::Tick(1), Op::Tick(2), Op::Finish(1), Op::DropBar(1), Op::DropBar(0), Op::Tick(2), Op::Add, Op::Tick(3)];
    c.max_bars = 4;
    c.suspend = false;
    c.bar_println = false;
    c.inserts = false;
    c.msgs = vec!["m".into()];
    v.push((c, d));
    let mut c = Cfg::base("c04-two-line-unlimited", 20, 40);
    c.two_line = true;
    c.fin_rot = 1;
    c.root = two_drawn();
    c.inserts = false;
    v.push((c, d));
    v.extend(focus_cfgs(tier));
    v
}

pub fn c19_configs(tier: Tier) -> Vec<(Cfg, usize)> {
    let mut v = Vec::new();
    let sizes: &[(usize, usize)] = if tier == Tier::Quick {
        &[(1, 1), (2, 2), (3, 3), (5, 3), (3, 1), (5, 4)]
    } else {
        &[(1, 1), (1, 2), (2, 1), (2, 2), (2, 3), (3, 1), (3, 2), (3, 3), (3, 4), (5, 1), (5, 2), (5, 3), (5, 4), (8, 3)]
    };
    for &(w, h) in sizes {
        let mut c = Cfg::base("c19", w, h);
        c.height_clauses = true;
        c.max_bars = 4;
        c.inserts = false;
        c.suspend = false;
        c.bar_println = false;
        c.remove = false;
        c.clear_only = true;
        c.odd_logs = true;
        c.root = pre_logs(3, vec![]);
        // renderings "a:" + msg of W-1, W, W+1, 2W, 2W+1 columns (and 2 columns for the empty message)
        let lens: Vec<usize> = [w.saturating_sub(1), w, w + 1, 2 * w, 2 * w + 1].iter().map(|t: &usize| t.saturating_sub(2)).collect();
        let mut msgs: Vec<String> = Vec::new();
        for l in lens {
            let m = "q".repeat(l);
            if !msgs.contains(&m) {
                msgs.push(m);
            }
        }
        c.msgs = msgs;
        c.vt = tier == Tier::Thorough || (w, h) == (3, 3);
        let depth = match tier {
            Tier::Quick => {
                if matches!((w, h), (2, 2) | (3, 3) | (5, 3)) {
                    5
                } else {
                    4
                }
            }
            Tier::Thorough => {
                if matches!((w, h), (2, 2) | (3, 3) | (5, 3)) {
                    6
                } else {
                    5
                }
            }
        };
        v.push((c, depth));
    }
    // wrapped rows of visibly finished (reaped) bars: general list-of-bars oracle, no height overflow
    let mut c = Cfg::base("c19-wrapped-zombies", 6, 14);
    c.max_bars = 3;
    c.inserts = false;
    c.suspend = false;
    c.bar_println = false;
    c.root = pre_logs(2, vec![Op::Add, Op::Add, Op::Msg(0, 1), Op::Tick(1)]);
    c.msgs = vec!["q".into(), "q".repeat(7), "q".repeat(11)];
    v.push((c, if tier == Tier::Quick { 3 } else { 4 }));
    // a wrapped, visibly finished bar that was dropped while not first (reaped lazily by a later draw)
    let mut c = Cfg::base("c19-wrapped-deferred-zombie", 6, 14);
    c.max_bars = 3;
    c.inserts = false;
    c.suspend = false;
    c.bar_println = false;
    c.root = pre_logs(2, vec![Op::Add, Op::Add, Op::Add, Op::Tick(0), Op::Msg(1, 2), Op::Tick(2), Op::Finish(1), Op::DropBar(1)]);
    c.msgs = vec!["q".into(), "q".repeat(7), "q".repeat(11)];
    v.push((c, if tier == Tier::Quick { 3 } else { 4 }));
    // a two-line template on a short terminal
    let mut c = Cfg::base("c19-two-line", 5, 3);
    c.height_clauses = true;
    c.two_line = true;
    c.max_bars = 3;
    c.inserts = false;
    c.suspend = false;
    c.bar_println = false;
    c.remove = false;
    c.clear_only = true;
    c.root = pre_logs(3, vec![]);
    c.msgs = vec!["q".repeat(4)];
    v.push((c, if tier == Tier::Quick { 4 } else { 5 }));
    // more bars than rows, with visibly finished bars among them (general oracle, bars may be omitted)
    for (w, h) in [(6usize, 2usize), (6, 1), (4, 3)] {
        let mut c = Cfg::base("c19-overflow-finished", w, h);
        c.may_omit = true;
        c.max_bars = 3;
        c.inserts = false;
        c.suspend = false;
        c.bar_println = false;
        c.remove = false;
        c.clear = false;
        c.root = vec![Op::Add, Op::Add, Op::Add, Op::Tick(0), Op::Tick(1), Op::Tick(2)];
        c.msgs = vec![];
        v.push((c, if tier == Tier::Quick { if h == 1 { 4 } else { 5 } } else { 6 }));
    }
    // the same with the rest of the alphabet: removal, clear, suspend, bar-level println, bottom alignment,
    // two-line bars
    for (k, (w, h)) in [(6usize, 2usize), (4, 3), (6, 3), (6, 2)].into_iter().enumerate() {
        let mut c = Cfg::base("c19-overflow-finished-x", w, h);
        c.may_omit = true;
        c.max_bars = 3;
        c.inserts = k == 1;
        c.align = k == 2;
        c.two_line = k == 3;
        c.root = vec![Op::Add, Op::Add, Op::Add, Op::Tick(0), Op::Tick(1), Op::Tick(2)];
        c.msgs = vec![];
        v.push((c, if tier == Tier::Quick { 3 } else { 4 }));
    }
    // three finished bars (one of them wrapped) dropped in every order above a live one
    v.push(drop_orders_cfg("c19-finished-drop-orders", 3, 12, tier));
    // a terminal that does not report its height counts as 20 rows high: eleven two-line bars do not all fit
    let mut c = Cfg::base("c19-default-height", 12, 20);
    c.default_height = true;
    c.may_omit = true;
    c.two_line = true;
    c.max_bars = 11;
    c.inserts = false;
    c.suspend = false;
    c.bar_println = false;
    c.remove = false;
    c.msgs = vec![];
    c.root = (0..11).map(|_| Op::Add).chain((0..11u8).map(Op::Tick)).collect();
    c.only = Some(|o| matches!(o, Op::Tick(0 | 1 | 9 | 10) | Op::FinishClear(0 | 10) | Op::Finish(0 | 10) | Op::DropBar(0 | 10) | Op::MpPrintln | Op::MpClear));
    v.push((c, if tier == Tier::Quick { 2 } else { 3 }));
    // move-cursor mode (redraws overwrite in place): clear/suspend still take every row off the screen,
    // wrapped ones included; the set of bars stays the same, as the documentation of the mode demands
    for (w, h) in [(3usize, 6usize), (6, 8)] {
        let mut c = Cfg::base("c19-move-cursor", w, h);
        c.move_cursor = true;
        c.max_bars = 2;
        c.msgs = vec!["q".repeat(w)];
        c.root = vec![Op::Add, Op::Add, Op::Msg(0, 0), Op::Tick(1)];
        c.only = Some(|o| matches!(o, Op::Tick(_) | Op::Inc(_) | Op::MpClear | Op::MpSuspend | Op::MpSuspendEmpty | Op::BarSuspend(_) | Op::Idle));
        v.push((c, if tier == Tier::Quick { 4 } else { 6 }));
    }
    // rate-limited target with the limiter exhausted on a short terminal: removing a bar makes room for an
    // omitted one at once; a finished bar whose text changes under the limiter is reaped by its real rows
    let mut c = Cfg::base("c19-hz1-remove", 6, 2);
    c.hz = Some(1);
    c.height_clauses = true;
    c.max_bars = 3;
    c.inserts = false;
    c.suspend = false;
    c.bar_println = false;
    c.clear_only = true;
    c.root = pre_logs(1, vec![Op::Add, Op::Add, Op::Add, Op::Tick(0), Op::Tick(1), Op::Tick(2), Op::Burn(0)]);
    c.limiter_ops = true;
    c.msgs = vec!["q".into()];
    v.push((c, if tier == Tier::Quick { 3 } else { 4 }));
    let mut c = Cfg::base("c19-hz1-finished-wrapped", 6, 14);
    c.hz = Some(1);
    c.max_bars = 2;
    c.inserts = false;
    c.suspend = false;
    c.bar_println = false;
    c.remove = false;
    c.root = pre_logs(1, vec![Op::Add, Op::Add, Op::Tick(0), Op::Tick(1), Op::Burn(1), Op::Finish(0)]);
    c.limiter_ops = true;
    c.msgs = vec!["q".into(), "q".repeat(7)];
    v.push((c, if tier == Tier::Quick { 4 } else { 5 }));
    // double-width characters at odd widths: a character that does not fit the last column wraps early
    for (w, h) in [(3usize, 3usize), (5, 4)] {
        let mut c = Cfg::base("c19-wide-chars", w, h);
        c.height_clauses = true;
        c.max_bars = 3;
        c.inserts = false;
        c.suspend = false;
        c.bar_println = false;
        c.remove = false;
        c.clear_only = true;
        c.root = pre_logs(2, vec![]);
        c.msgs = vec!["日".into(), "日本語".into(), "q日本語日".into()];
        v.push((c, if tier == Tier::Quick { 4 } else { 5 }));
    }
    // growth and shrinkage of a bottom-aligned region (padding rows), general list-of-bars oracle
    v.extend(focus_cfgs(tier).into_iter().filter(|(c, _)| c.name == "focus-bottom-growth"));
    v
}

fn run_cfgs(cfgs: Vec<(Cfg, usize)>, shard: Shard, stats: &mut Stats) {
    // development aid: VCHECK_ONLY=<substring> restricts a run to the configurations whose name contains it
    let only = std::env::var("VCHECK_ONLY").ok();
    for (cfg, depth) in cfgs {
        if let Some(o) = &only {
            if !cfg.name.contains(o.as_str()) {
                continue;
            }
        }
        let mut dfs = Dfs::new(&cfg, depth, shard, 2);
        dfs.explore(stats);
    }
}

fn meta_for(cfgs: Vec<(Cfg, usize)>, what: &str) -> Meta {
    let c: Vec<Value> = cfgs
        .iter()
        .map(|(c, d)| json!({"config": c.describe(), "depth": d, "root_alphabet": c.alphabet(&[]).len(), "vt100_lockstep": c.vt}))
        .collect();
    Meta {
        level: "model_checking",
        rule: format!("stateless DFS over all MultiProgress operation histories up to the stated depth from each root prefix; every node replays root++history through the public API of the unmodified crate on fresh objects over a terminal model and judges the last operation with the list-of-bars reference ({what}); a state is (document, reference bars, order); non-trivial = something is on screen"),
        assumptions: vec![
            "terminal = deferred-wrap VT100 grid model with scrollback (harness/src/term.rs), compared with the vt100 crate at every flush in the lock-step configurations".into(),
            "virtual clock: +2 ms per operation (position bucket always admits), frozen otherwise; Idle = +1 s".into(),
            "oracle evaluated on completed draws; an operation that completes no draw must leave the document unchanged".into(),
            "a dropped, visibly finished bar may be reaped at any time: it is ordered only against bars that existed before its drop or were inserted relative to a live bar".into(),
        ],
        bounds: json!({"configurations": c}),
        exhaustive: true,
    }
}

pub fn c02_run(t: Tier, s: Shard, st: &mut Stats) {
    run_cfgs(c02_configs(t), s, st);
    // members across a change of the draw target (two terminals)
    crate::c03x::run(t, s, st, crate::c03x::Clause::Bars);
    // bars handed from one MultiProgress to another
    crate::c02y::run(t, s, st, "C02");
}
pub fn c03_run(t: Tier, s: Shard, st: &mut Stats) {
    run_cfgs(c03_configs(t), s, st);
    // printed lines under a rate-limited standalone target
    crate::c04s::run(t, s, st);
    // printed lines across a change of the draw target (two terminals)
    crate::c03x::run(t, s, st, crate::c03x::Clause::Logs);
}
pub fn c04_run(t: Tier, s: Shard, st: &mut Stats) {
    run_cfgs(c04_configs(t), s, st);
    // standalone bars on a rate-limited target, incl. iterator-driven completion
    crate::c04s::run(t, s, st);
    // visibly finished bars across a change of the draw target (two terminals)
    crate::c03x::run(t, s, st, crate::c03x::Clause::Finished);
    crate::c02y::run(t, s, st, "C04");
}
pub fn c19_run(t: Tier, s: Shard, st: &mut Stats) {
    run_cfgs(c19_configs(t), s, st)
}
pub fn c02_meta(t: Tier) -> Meta {
    meta_for(c02_configs(t), "each live member once with its last drawn rendering, logical order, below the log, no stale/duplicate/residue rows")
}
pub fn c03_meta(t: Tier) -> Meta {
    let mut m = meta_for(c03_configs(t), "every emitted log row present exactly once, in order, above every live bar");
    m.rule.push_str(&format!("; plus the standalone rate-limited engine (see C04) and every history of <= {} operations from {{println, add+tick, finish+drop the first bar, tick, set_draw_target(terminal T), set_draw_target(terminal U)}} over two terminals: each terminal shows the lines printed while it was the target, once, in order", crate::c03x::depth(t)));
    m
}
pub fn c04_meta(t: Tier) -> Meta {
    let mut m = meta_for(c04_configs(t), "finish*/abandon*/drop always paint the final state; dropping a finished bar is a screen no-op; visibly finished bars keep their final rendering");
    m.rule.push_str("; plus standalone bars on term_like_with_hz (1 and 255 Hz, and unlimited): every history to the same depth over burn/idle/tick/inc/set_message/set_length/reset and every finish variant, finish_using_style, drop and wrap_iter exhaustion over 0/1/3 items for each ProgressFinish: the operation must paint and the document must equal the reference rendering of the final state");
    m
}
pub fn c19_meta(t: Tier) -> Meta {
    meta_for(c19_configs(t), "wrapped rows accounted, leading-prefix rule under height overflow, no live bar row in scrollback, no residue")
}

fn replay_in(cfgs: Vec<(Cfg, usize)>, v: &Value, id: &str) -> Option<i32> {
    let hist: Vec<String> = v["history"].as_array().map(|a| a.iter().map(|s| s.as_str().unwrap_or("").to_string()).collect()).unwrap_or_default();
    let cfg_s = v["config"].as_str().unwrap_or("");
    for (cfg, _) in cfgs {
        if cfg.describe() == cfg_s {
            return Some(crate::replay_hist(&cfg, &hist, id));
        }
    }
    None
}

pub fn replay_any(v: &Value, id: &str) -> i32 {
    for t in [Tier::Quick, Tier::Thorough] {
        for cfgs in [c02_configs(t), c03_configs(t), c04_configs(t), c19_configs(t)] {
            if let Some(c) = replay_in(cfgs, v, id) {
                return c;
            }
        }
    }
    eprintln!("no configuration matches");
    2
}

pub fn c02_replay(v: &Value) -> i32 {
    if let Some(c) = crate::c03x::replay(v, "C02") {
        return c;
    }
    if let Some(c) = crate::c02y::replay(v, "C02") {
        return c;
    }
    replay_any(v, "C02")
}
pub fn c03_replay(v: &Value) -> i32 {
    if let Some(c) = crate::c03x::replay(v, "C03") {
        return c;
    }
    replay_any(v, "C03")
}
pub fn c04_replay(v: &Value) -> i32 {
    if let Some(c) = crate::c04s::replay(v) {
        return c;
    }
    if let Some(c) = crate::c03x::replay(v, "C04") {
        return c;
    }
    if let Some(c) = crate::c02y::replay(v, "C04") {
        return c;
    }
    replay_any(v, "C04")
}
pub fn c19_replay(v: &Value) -> i32 {
    replay_any(v, "C19")
}
