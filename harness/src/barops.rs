//! A shared single-bar operation alphabet with its logical reference state (getters), used by
//! C06, C07, C16 and C18.

use indicatif::{ProgressBar, ProgressFinish, ProgressState, ProgressStyle};
use std::fmt::Write;

#[derive(Clone, Debug, PartialEq)]
pub enum BOp {
    Tick,
    Inc(u64),
    Dec(u64),
    SetPos(u64),
    SetLen(u64),
    IncLen(u64),
    DecLen(u64),
    UnsetLen,
    Msg(&'static str),
    Prefix(&'static str),
    Style(usize),
    StyleRoundTrip,
    /// a wrapped iterator of three items driven to exhaustion (finishes the bar per its finish behaviour)
    WrapIter3,
    /// keep a copy of the bar's current style (pb.style()) / install the copy kept last (no-op without one)
    StyleSave,
    StyleRestore,
    /// MultiProgress::remove(bar): not a position or length update (handled by the engines that have a MultiProgress)
    MpRemove,
    TabWidth(usize),
    Println(&'static str),
    SuspendEmpty,
    Reset,
    ResetEta,
    ResetElapsed,
    ForceDraw,
    Finish,
    FinishClear,
    FinishMsg(&'static str),
    Abandon,
    AbandonMsg(&'static str),
    FinishUsingStyle,
    UpdatePos(u64),
    UpdateLen(u64),
}

pub const TEMPLATES: [&str; 6] = ["a\tb {msg}", "{k}|{prefix}", "{prefix}|{msg}", "{msg}\t!", ">\t{ \"m\":\t\"{msg}\" }", "{wide_msg}|"];

pub fn style(i: usize) -> ProgressStyle {
    let base = ProgressStyle::with_template(TEMPLATES[i]).unwrap();
    // template 5: a custom key is registered under the name `msg`; {wide_msg} keeps showing the bar's own message
    let base = if i == 5 { base.with_key("msg", |_: &ProgressState, w: &mut dyn Write| w.write_str("k\tk").unwrap()) } else { base };
    base.with_key("k", |_: &ProgressState, w: &mut dyn Write| {
        // the tab arrives once as a single char and once inside a formatted chunk
        w.write_str("x").unwrap();
        w.write_char('\t').unwrap();
        write!(w, "{}", "y\tz").unwrap();
    })
}

#[derive(Clone, Copy, Debug, PartialEq, Eq)]
pub enum Fin {
    AndLeave,
    AndClear,
    WithMessage,
    Abandon,
    AbandonWithMessage,
}

impl Fin {
    pub fn real(&self) -> ProgressFinish {
        match self {
            Fin::AndLeave => ProgressFinish::AndLeave,
            Fin::AndClear => ProgressFinish::AndClear,
            Fin::WithMessage => ProgressFinish::WithMessage("w\tm".into()),
            Fin::Abandon => ProgressFinish::Abandon,
            Fin::AbandonWithMessage => ProgressFinish::AbandonWithMessage("a\tm".into()),
        }
    }
}

pub fn apply(pb: &ProgressBar, op: &BOp) {
    match op {
        BOp::Tick => pb.tick(),
        BOp::Inc(x) => pb.inc(*x),
        BOp::Dec(x) => pb.dec(*x),
        BOp::SetPos(x) => pb.set_position(*x),
        BOp::SetLen(x) => pb.set_length(*x),
        BOp::IncLen(x) => pb.inc_length(*x),
        BOp::DecLen(x) => pb.dec_length(*x),
        BOp::UnsetLen => pb.unset_length(),
        BOp::Msg(m) => pb.set_message(*m),
        BOp::Prefix(p) => pb.set_prefix(*p),
        BOp::Style(i) => pb.set_style(style(*i)),
        BOp::StyleRoundTrip => pb.set_style(pb.style().template(TEMPLATES[3]).unwrap()),
        BOp::WrapIter3 => {
            for _ in pb.wrap_iter(0..3) {}
        }
        // handled by the engines that keep the copy (C16)
        BOp::StyleSave | BOp::StyleRestore | BOp::MpRemove => {}
        BOp::TabWidth(w) => pb.set_tab_width(*w),
        BOp::Println(t) => pb.println(*t),
        BOp::SuspendEmpty => pb.suspend(|| ()),
        BOp::Reset => pb.reset(),
        BOp::ResetEta => pb.reset_eta(),
        BOp::ResetElapsed => pb.reset_elapsed(),
        BOp::ForceDraw => pb.force_draw(),
        BOp::Finish => pb.finish(),
        BOp::FinishClear => pb.finish_and_clear(),
        BOp::FinishMsg(m) => pb.finish_with_message(*m),
        BOp::Abandon => pb.abandon(),
        BOp::AbandonMsg(m) => pb.abandon_with_message(*m),
        BOp::FinishUsingStyle => pb.finish_using_style(),
        BOp::UpdatePos(x) => pb.update(|s| s.set_pos(*x)),
        BOp::UpdateLen(x) => pb.update(|s| s.set_len(*x)),
    }
}

#[derive(Clone, Debug, PartialEq, Eq, Hash)]
pub struct Getters {
    pub pos: u64,
    pub len: Option<u64>,
    pub msg: String,
    pub prefix: String,
    pub finished: bool,
}

pub fn getters(pb: &ProgressBar) -> Getters {
    Getters { pos: pb.position(), len: pb.length(), msg: pb.message(), prefix: pb.prefix(), finished: pb.is_finished() }
}

/// Logical reference: what the documented meaning of the calls makes the getters return.
#[derive(Clone, Debug)]
pub struct RefState {
    pub pos: u64,
    pub len: Option<u64>,
    pub msg: String,
    pub prefix: String,
    pub finished: bool,
    pub hidden_done: bool,
    pub tab_width: usize,
    pub tpl: usize,
    pub on_finish: Fin,
    /// terminal width (for the wide element of template 5)
    pub term_w: usize,
}

impl RefState {
    pub fn new(len: Option<u64>, on_finish: Fin, tpl: usize) -> Self {
        RefState { pos: 0, len, msg: String::new(), prefix: String::new(), finished: false, hidden_done: false, tab_width: 8, tpl, on_finish, term_w: 80 }
    }

    pub fn expand(&self, s: &str) -> String {
        s.replace('\t', &" ".repeat(self.tab_width))
    }

    pub fn getters(&self) -> Getters {
        Getters { pos: self.pos, len: self.len, msg: self.expand(&self.msg), prefix: self.expand(&self.prefix), finished: self.finished }
    }

    fn fin(&mut self, f: Fin) {
        self.finished = true;
        self.hidden_done = false;
        match f {
            Fin::AndLeave => {
                if let Some(l) = self.len {
                    self.pos = l;
                }
            }
            Fin::AndClear => {
                if let Some(l) = self.len {
                    self.pos = l;
                }
                self.hidden_done = true;
            }
            Fin::WithMessage => {
                if let Some(l) = self.len {
                    self.pos = l;
                }
                self.msg = "w\tm".into();
            }
            Fin::Abandon => {}
            Fin::AbandonWithMessage => self.msg = "a\tm".into(),
        }
    }

    pub fn step(&mut self, op: &BOp) {
        match op {
            BOp::Tick | BOp::Println(_) | BOp::SuspendEmpty | BOp::ResetEta | BOp::ResetElapsed | BOp::ForceDraw => {}
            BOp::Inc(x) => self.pos = self.pos.wrapping_add(*x),
            BOp::Dec(x) => self.pos = self.pos.wrapping_sub(*x),
            BOp::SetPos(x) | BOp::UpdatePos(x) => self.pos = *x,
            BOp::SetLen(x) | BOp::UpdateLen(x) => self.len = Some(*x),
            BOp::IncLen(x) => self.len = self.len.map(|l| l.saturating_add(*x)),
            BOp::DecLen(x) => self.len = self.len.map(|l| l.saturating_sub(*x)),
            BOp::UnsetLen => self.len = None,
            BOp::Msg(m) => self.msg = m.to_string(),
            BOp::Prefix(p) => self.prefix = p.to_string(),
            BOp::Style(i) => self.tpl = *i,
            BOp::StyleRoundTrip => self.tpl = 3,
            BOp::TabWidth(w) => self.tab_width = *w,
            BOp::Reset => {
                self.pos = 0;
                self.finished = false;
                self.hidden_done = false;
            }
            BOp::Finish => self.fin(Fin::AndLeave),
            BOp::FinishClear => self.fin(Fin::AndClear),
            BOp::FinishMsg(m) => {
                self.fin(Fin::AndLeave);
                self.msg = m.to_string();
            }
            BOp::Abandon => self.fin(Fin::Abandon),
            BOp::AbandonMsg(m) => {
                self.fin(Fin::Abandon);
                self.msg = m.to_string();
            }
            BOp::FinishUsingStyle => {
                let f = self.on_finish;
                self.fin(f);
            }
            BOp::StyleSave | BOp::StyleRestore | BOp::MpRemove => {}
            BOp::WrapIter3 => {
                self.pos = self.pos.wrapping_add(3);
                // exhausting the iterator finishes a bar that is not finished yet
                if !self.finished {
                    let f = self.on_finish;
                    self.fin(f);
                }
            }
        }
    }

    /// Reference rendering of the current template (unwrapped frame lines).
    pub fn render(&self) -> Vec<String> {
        if self.finished && self.hidden_done {
            return vec![];
        }
        let msg = self.expand(&self.msg);
        let prefix = self.expand(&self.prefix);
        let line = match self.tpl {
            0 => format!("{} {}", self.expand("a\tb"), msg),
            1 => format!("{}|{}", self.expand("x\ty\tz"), prefix),
            2 => format!("{}|{}", prefix, msg),
            4 => format!("{}{}\" }}", self.expand(">\t{ \"m\":\t\""), msg),
            5 => {
                let room = self.term_w.saturating_sub(1);
                let shown: String = msg.chars().take(room).collect();
                format!("{:<room$}|", shown)
            }
            _ => format!("{}{}", msg, self.expand("\t!")),
        };
        line.split('\n').map(|s| s.to_string()).collect()
    }

    pub fn draws(op: &BOp) -> bool {
        !matches!(op, BOp::Style(_) | BOp::StyleRoundTrip | BOp::ResetEta | BOp::ResetElapsed | BOp::StyleSave | BOp::StyleRestore | BOp::MpRemove)
    }
}
