//! C17, rayon adaptor: the plumbing (`with_producer`, `drive`, `drive_unindexed`) is driven
//! deterministically on one thread with the harness's own callback / consumer, which splits per an
//! enumerated split tree and pulls the leaves in every interleaving.

use crate::report::{hash_of, Shard, Stats, Violation};
use crate::util::{catch, panic_class};
use crate::{clock, Tier};
use indicatif::{ParallelProgressIterator, ProgressBar, ProgressDrawTarget, ProgressFinish};
use rayon::iter::plumbing::{Consumer, Folder, Producer, ProducerCallback, Reducer, UnindexedConsumer};
use rayon::iter::{IndexedParallelIterator, IntoParallelIterator, ParallelIterator};
use serde_json::json;

#[derive(Clone, Debug)]
pub enum Tree {
    Leaf(usize),
    Node(Box<Tree>, Box<Tree>),
}

impl Tree {
    fn len(&self) -> usize {
        match self {
            Tree::Leaf(n) => *n,
            Tree::Node(a, b) => a.len() + b.len(),
        }
    }
    fn leaves(&self) -> Vec<usize> {
        match self {
            Tree::Leaf(n) => vec![*n],
            Tree::Node(a, b) => {
                let mut v = a.leaves();
                v.extend(b.leaves());
                v
            }
        }
    }
}

/// all split trees over n items with at most `max_leaves` leaves (sides may be empty)
fn trees(n: usize, max_leaves: usize) -> Vec<Tree> {
    let mut v = vec![Tree::Leaf(n)];
    if max_leaves >= 2 {
        for k in 0..=n {
            for ll in 1..max_leaves {
                let rl = max_leaves - ll;
                for a in trees(k, ll) {
                    if a.leaves().len() != ll && ll > 1 {
                        continue;
                    }
                    for b in trees(n - k, rl) {
                        v.push(Tree::Node(Box::new(a.clone()), Box::new(b)));
                    }
                }
            }
        }
    }
    // dedupe by shape
    let mut seen = std::collections::HashSet::new();
    v.retain(|t| seen.insert(format!("{:?}", t)));
    v
}

/// all interleavings of per-leaf event sequences; leaf i contributes sizes[i] item pulls followed
/// by one exhausting pull
fn interleavings(sizes: &[usize], cap: usize) -> Vec<Vec<usize>> {
    let mut out = Vec::new();
    let mut left: Vec<usize> = sizes.iter().map(|s| s + 1).collect();
    let mut cur = Vec::new();
    fn rec(left: &mut Vec<usize>, cur: &mut Vec<usize>, out: &mut Vec<Vec<usize>>, cap: usize) {
        if out.len() >= cap {
            return;
        }
        if left.iter().all(|&l| l == 0) {
            out.push(cur.clone());
            return;
        }
        for i in 0..left.len() {
            if left[i] > 0 {
                left[i] -= 1;
                cur.push(i);
                rec(left, cur, out, cap);
                cur.pop();
                left[i] += 1;
            }
        }
    }
    rec(&mut left, &mut cur, &mut out, cap);
    out
}

fn split<P: Producer>(p: P, t: &Tree, out: &mut Vec<P::IntoIter>) {
    match t {
        Tree::Leaf(_) => out.push(p.into_iter()),
        Tree::Node(a, b) => {
            let (l, r) = p.split_at(a.len());
            split(l, a, out);
            split(r, b, out);
        }
    }
}

struct Cb<'a> {
    tree: &'a Tree,
    order: &'a [usize],
    pb: ProgressBar,
    start: u64,
    /// 0 = pull from the front, 1 = from the back, 2 = alternate per pull (like `rev()` / `zip` do)
    dir: u8,
}

impl<'a> ProducerCallback<u32> for Cb<'a> {
    type Output = Result<Vec<u32>, (String, String)>;
    fn callback<P: Producer<Item = u32>>(self, producer: P) -> Self::Output {
        let mut leaves = Vec::new();
        split(producer, self.tree, &mut leaves);
        let mut got = Vec::new();
        let mut handed = 0u64;
        for (k, &leaf) in self.order.iter().enumerate() {
            clock::advance_ms(2);
            let back = self.dir == 1 || (self.dir == 2 && k % 2 == 1);
            match if back { leaves[leaf].next_back() } else { leaves[leaf].next() } {
                Some(x) => {
                    got.push(x);
                    handed += 1;
                }
                None => {}
            }
            let p = self.pb.position();
            if p != self.start + handed {
                return Err(("count: position is not start + items handed over".into(), format!("after event #{k} (leaf {leaf}): position {p}, expected {}", self.start + handed)));
            }
        }
        Ok(got)
    }
}

// a consumer that collects into a Vec and splits per the tree
struct CollectConsumer<'a> {
    tree: &'a Tree,
}
struct CollectFolder(Vec<u32>);
struct CatReducer;

impl Reducer<Vec<u32>> for CatReducer {
    fn reduce(self, mut l: Vec<u32>, r: Vec<u32>) -> Vec<u32> {
        l.extend(r);
        l
    }
}

impl Folder<u32> for CollectFolder {
    type Result = Vec<u32>;
    fn consume(mut self, item: u32) -> Self {
        self.0.push(item);
        self
    }
    fn complete(self) -> Vec<u32> {
        self.0
    }
    fn full(&self) -> bool {
        false
    }
}

impl<'a> Consumer<u32> for CollectConsumer<'a> {
    type Folder = CollectFolder;
    type Reducer = CatReducer;
    type Result = Vec<u32>;
    fn split_at(self, _index: usize) -> (Self, Self, CatReducer) {
        match self.tree {
            Tree::Node(a, b) => (CollectConsumer { tree: a }, CollectConsumer { tree: b }, CatReducer),
            Tree::Leaf(_) => (CollectConsumer { tree: self.tree }, CollectConsumer { tree: self.tree }, CatReducer),
        }
    }
    fn into_folder(self) -> CollectFolder {
        CollectFolder(Vec::new())
    }
    fn full(&self) -> bool {
        false
    }
}

impl<'a> UnindexedConsumer<u32> for CollectConsumer<'a> {
    fn split_off_left(&self) -> Self {
        CollectConsumer { tree: self.tree }
    }
    fn to_reducer(&self) -> CatReducer {
        CatReducer
    }
}

/// A deterministic parallel-iterator base: `drive` splits the consumer per the tree and feeds each
/// leaf's folder with `consume_iter` on the calling thread (what rayon's bridge does, minus the pool).
struct DetPar<'a> {
    items: Vec<u32>,
    tree: &'a Tree,
}

fn det_drive<C: Consumer<u32>>(mut items: Vec<u32>, tree: &Tree, consumer: C) -> C::Result {
    match tree {
        Tree::Leaf(_) => consumer.into_folder().consume_iter(items).complete(),
        Tree::Node(a, b) => {
            let right = items.split_off(a.len().min(items.len()));
            let (l, r, reducer) = consumer.split_at(a.len());
            let lr = det_drive(items, a, l);
            let rr = det_drive(right, b, r);
            reducer.reduce(lr, rr)
        }
    }
}

impl<'a> ParallelIterator for DetPar<'a> {
    type Item = u32;
    fn drive_unindexed<C: UnindexedConsumer<u32>>(self, consumer: C) -> C::Result {
        det_drive(self.items, self.tree, consumer)
    }
    fn opt_len(&self) -> Option<usize> {
        Some(self.items.len())
    }
}

impl<'a> IndexedParallelIterator for DetPar<'a> {
    fn len(&self) -> usize {
        self.items.len()
    }
    fn drive<C: Consumer<u32>>(self, consumer: C) -> C::Result {
        det_drive(self.items, self.tree, consumer)
    }
    fn with_producer<CB: ProducerCallback<u32>>(self, callback: CB) -> CB::Output {
        self.items.into_par_iter().with_producer(callback)
    }
}

/// A consumer that stops accepting items after `limit` of them (like find_any / take_any).
struct LimitConsumer {
    left: std::sync::Arc<std::sync::atomic::AtomicIsize>,
    taken: std::sync::Arc<std::sync::atomic::AtomicUsize>,
}
struct LimitFolder {
    left: std::sync::Arc<std::sync::atomic::AtomicIsize>,
    taken: std::sync::Arc<std::sync::atomic::AtomicUsize>,
}
struct NoReduce;
impl Reducer<()> for NoReduce {
    fn reduce(self, _: (), _: ()) {}
}
impl Folder<u32> for LimitFolder {
    type Result = ();
    fn consume(self, _item: u32) -> Self {
        self.taken.fetch_add(1, std::sync::atomic::Ordering::SeqCst);
        self.left.fetch_sub(1, std::sync::atomic::Ordering::SeqCst);
        self
    }
    fn complete(self) {}
    fn full(&self) -> bool {
        self.left.load(std::sync::atomic::Ordering::SeqCst) <= 0
    }
}
impl Consumer<u32> for LimitConsumer {
    type Folder = LimitFolder;
    type Reducer = NoReduce;
    type Result = ();
    fn split_at(self, _: usize) -> (Self, Self, NoReduce) {
        (LimitConsumer { left: self.left.clone(), taken: self.taken.clone() }, LimitConsumer { left: self.left, taken: self.taken }, NoReduce)
    }
    fn into_folder(self) -> LimitFolder {
        LimitFolder { left: self.left, taken: self.taken }
    }
    fn full(&self) -> bool {
        self.left.load(std::sync::atomic::Ordering::SeqCst) <= 0
    }
}
impl UnindexedConsumer<u32> for LimitConsumer {
    fn split_off_left(&self) -> Self {
        LimitConsumer { left: self.left.clone(), taken: self.taken.clone() }
    }
    fn to_reducer(&self) -> NoReduce {
        NoReduce
    }
}

fn fin(i: usize) -> ProgressFinish {
    match i {
        0 => ProgressFinish::AndLeave,
        1 => ProgressFinish::AndClear,
        2 => ProgressFinish::WithMessage("fin".into()),
        3 => ProgressFinish::Abandon,
        _ => ProgressFinish::AbandonWithMessage("abd".into()),
    }
}

pub fn run(tier: Tier, shard: Shard, stats: &mut Stats, case: &mut u64) {
    let max_n = if tier == Tier::Quick { 4 } else { 5 };
    let max_leaves = if tier == Tier::Quick { 3 } else { 4 };
    for n in 0..=max_n {
        for tree in trees(n, max_leaves) {
            let sizes = tree.leaves();
            let orders = interleavings(&sizes, 5000);
            for f in 0..5usize {
                for (start, dir) in [(0u64, 0u8), (3, 0), (0, 1), (3, 2)] {
                    for order in &orders {
                        *case += 1;
                        if !shard.owns(*case) {
                            continue;
                        }
                        stats.evaluations += 1;
                        stats.transitions += order.len() as u64;
                        let hist = vec!["rayon with_producer".to_string(), format!("{n} items, split tree {:?}", tree), format!("leaf pull order {:?} (each leaf is pulled once more than it has items)", order), format!("on_finish #{f}, start position {start}, pulls from the {}", ["front", "back", "front and back alternately"][dir as usize])];
                        let r = catch(|| -> Result<(u64, bool), (String, String)> {
                            clock::reset();
                            let items: Vec<u32> = (0..n as u32).collect();
                            let pb = ProgressBar::with_draw_target(Some(n as u64 + start), ProgressDrawTarget::hidden()).with_finish(fin(f)).with_position(start);
                            let wrapped = items.clone().into_par_iter().progress_with(pb.clone());
                            let got = wrapped.with_producer(Cb { tree: &tree, order, pb: pb.clone(), start, dir })?;
                            // the same pulls on the bare producer
                            struct Bare<'a> {
                                tree: &'a Tree,
                                order: &'a [usize],
                                dir: u8,
                            }
                            impl<'a> ProducerCallback<u32> for Bare<'a> {
                                type Output = Vec<u32>;
                                fn callback<P: Producer<Item = u32>>(self, p: P) -> Vec<u32> {
                                    let mut leaves = Vec::new();
                                    split(p, self.tree, &mut leaves);
                                    let mut got = Vec::new();
                                    for (k, &l) in self.order.iter().enumerate() {
                                        let back = self.dir == 1 || (self.dir == 2 && k % 2 == 1);
                                        if let Some(x) = if back { leaves[l].next_back() } else { leaves[l].next() } {
                                            got.push(x);
                                        }
                                    }
                                    got
                                }
                            }
                            let want = items.clone().into_par_iter().with_producer(Bare { tree: &tree, order, dir });
                            if got != want {
                                return Err(("transparency: items seen through the wrapped producer differ".into(), format!("{:?} vs {:?}", got, want)));
                            }
                            let p = pb.position();
                            if p != start + n as u64 {
                                return Err(("count: final position is not start + number of items".into(), format!("position {p}, expected {}", start + n as u64)));
                            }
                            Ok((hash_of(&(n, format!("{:?}", tree), order, f, dir)), n > 0 && sizes.len() > 1))
                        });
                        match r {
                            Err(p) => stats.violation(Violation { class: format!("panic: {}", panic_class(&p)), config: "rayon".into(), history: hist, detail: p }),
                            Ok(Err((class, detail))) => stats.violation(Violation { class: format!("rayon with_producer: {class}"), config: "rayon".into(), history: hist, detail }),
                            Ok(Ok((h, nt))) => stats.state_outcome(h, nt),
                        }
                    }
                }
            }
            // consumer side: drive / drive_unindexed with a consumer that splits per the tree
            for f in 0..5usize {
                for unindexed in [false, true] {
                    *case += 1;
                    if !shard.owns(*case) {
                        continue;
                    }
                    stats.evaluations += 1;
                    stats.transitions += n as u64;
                    let hist = vec![if unindexed { "rayon drive_unindexed".to_string() } else { "rayon drive".to_string() }, format!("{n} items, consumer split tree {:?}", tree), format!("on_finish #{f}")];
                    let r = catch(|| -> Result<(u64, bool), (String, String)> {
                        clock::reset();
                        let items: Vec<u32> = (0..n as u32).collect();
                        let pb = ProgressBar::with_draw_target(Some(n as u64), ProgressDrawTarget::hidden()).with_finish(fin(f));
                        let wrapped = DetPar { items: items.clone(), tree: &tree }.progress_with(pb.clone());
                        let mut got = if unindexed { wrapped.drive_unindexed(CollectConsumer { tree: &tree }) } else { wrapped.drive(CollectConsumer { tree: &tree }) };
                        let bare = DetPar { items: items.clone(), tree: &tree };
                        let mut want = if unindexed { bare.drive_unindexed(CollectConsumer { tree: &tree }) } else { bare.drive(CollectConsumer { tree: &tree }) };
                        got.sort();
                        want.sort();
                        if got != want {
                            return Err(("transparency: items seen through the wrapped consumer differ".into(), format!("{:?} vs {:?}", got, want)));
                        }
                        if pb.position() != n as u64 {
                            return Err(("count: final position is not the number of items".into(), format!("position {}, expected {n}", pb.position())));
                        }
                        Ok((hash_of(&(n, format!("{:?}", tree), unindexed, f)), n > 0))
                    });
                    match r {
                        Err(p) => stats.violation(Violation { class: format!("panic: {}", panic_class(&p)), config: "rayon".into(), history: hist, detail: p }),
                        Ok(Err((class, detail))) => stats.violation(Violation { class: format!("rayon drive: {class}"), config: "rayon".into(), history: hist, detail }),
                        Ok(Ok((h, nt))) => stats.state_outcome(h, nt),
                    }
                }
            }
        }
    }
    // short-circuiting consumers over a deterministic base: only items that reach the consumer count
    for n in 0..=max_n {
        for tree in trees(n, max_leaves) {
            for limit in 0..=n as isize + 1 {
                for unindexed in [false, true] {
                    *case += 1;
                    if !shard.owns(*case) {
                        continue;
                    }
                    stats.evaluations += 1;
                    stats.transitions += n as u64;
                    let hist = vec![if unindexed { "rayon drive_unindexed (short-circuiting consumer)".to_string() } else { "rayon drive (short-circuiting consumer)".to_string() }, format!("{n} items, split tree {:?}", tree), format!("consumer is full after {limit} items")];
                    let r = catch(|| -> Result<(u64, bool), (String, String)> {
                        clock::reset();
                        let pb = ProgressBar::with_draw_target(Some(n as u64), ProgressDrawTarget::hidden());
                        let left = std::sync::Arc::new(std::sync::atomic::AtomicIsize::new(limit));
                        let taken = std::sync::Arc::new(std::sync::atomic::AtomicUsize::new(0));
                        let wrapped = DetPar { items: (0..n as u32).collect(), tree: &tree }.progress_with(pb.clone());
                        let c = LimitConsumer { left, taken: taken.clone() };
                        if unindexed {
                            wrapped.drive_unindexed(c)
                        } else {
                            wrapped.drive(c)
                        }
                        let t = taken.load(std::sync::atomic::Ordering::SeqCst) as u64;
                        if pb.position() != t {
                            return Err(("count: position differs from the number of items handed to the consumer".into(), format!("position {}, items consumed {t}", pb.position())));
                        }
                        Ok((hash_of(&(n, format!("{:?}", tree), limit, unindexed)), t > 0 && (t as usize) < n))
                    });
                    match r {
                        Err(p) => stats.violation(Violation { class: format!("panic: {}", panic_class(&p)), config: "rayon".into(), history: hist, detail: p }),
                        Ok(Err((class, detail))) => stats.violation(Violation { class: format!("rayon drive: {class}"), config: "rayon".into(), history: hist, detail }),
                        Ok(Ok((h, nt))) => stats.state_outcome(h, nt),
                    }
                }
            }
        }
    }
    stats.sample(json!(["rayon with_producer", "5 items, split tree Node(Leaf(2), Leaf(3))", "leaf pull order [0, 0, 0, 1, 1, 1, 1]"]));
}
