//! C12 — field width, alignment and truncation contract (ENUM).

use crate::render::{bar_on, frame_lines, LineCatcher};
use crate::report::{hash_of, Shard, Stats, Violation};
use crate::util::{catch, panic_class};
use crate::{Meta, Tier};
use indicatif::ProgressStyle;
use serde_json::{json, Value};

/// (text, columns)
const UNITS: [(&str, usize); 5] = [("a", 1), ("b", 1), ("é", 1), ("日", 2), ("\x1b[31mz\x1b[0m", 1)];

fn contents(maxlen: usize) -> Vec<Vec<usize>> {
    let mut all = vec![vec![]];
    let mut cur: Vec<Vec<usize>> = vec![vec![]];
    for _ in 0..maxlen {
        let mut next = Vec::new();
        for c in &cur {
            for u in 0..UNITS.len() {
                let mut d = c.clone();
                d.push(u);
                next.push(d);
            }
        }
        all.extend(next.iter().cloned());
        cur = next;
    }
    all
}

fn text_of(c: &[usize]) -> String {
    c.iter().map(|&u| UNITS[u].0).collect()
}

/// visible characters with their column widths
fn visible(c: &[usize]) -> Vec<(char, usize)> {
    c.iter().map(|&u| if u == 4 { ('z', 1) } else { (UNITS[u].0.chars().next().unwrap(), UNITS[u].1) }).collect()
}

/// Strip complete CSI sequences; returns (rest, ok) where ok=false if an ESC without a complete
/// sequence remains.
fn strip_csi(s: &str) -> (String, bool) {
    let mut out = String::new();
    let mut it = s.chars().peekable();
    let mut ok = true;
    while let Some(ch) = it.next() {
        if ch == '\x1b' {
            if it.peek() == Some(&'[') {
                it.next();
                let mut closed = false;
                for c in it.by_ref() {
                    if ('\x40'..='\x7e').contains(&c) {
                        closed = true;
                        break;
                    }
                }
                if !closed {
                    ok = false;
                }
            } else {
                ok = false;
            }
            continue;
        }
        out.push(ch);
    }
    (out, ok)
}

fn width_of_visible(s: &str) -> Option<usize> {
    let mut w = 0;
    for ch in s.chars() {
        w += match ch {
            'a' | 'b' | 'z' | 'é' | ' ' | '|' | 'x' | 'p' => 1,
            '日' => 2,
            _ => return None, // fragment of an escape sequence or a split character
        };
    }
    Some(w)
}

/// Judge one rendered field.  `out` is what the crate produced for content `c`.
fn judge(c: &[usize], out: &str, width: usize, align: char, truncate: bool) -> Result<&'static str, (String, String)> {
    let content = text_of(c);
    let vis = visible(c);
    let cols: usize = vis.iter().map(|v| v.1).sum();
    if cols <= width {
        let d = width - cols;
        let ok = match align {
            '<' => out == format!("{}{}", content, " ".repeat(d)),
            '>' => out == format!("{}{}", " ".repeat(d), content),
            _ => (d / 2..=d - d / 2).any(|l| out == format!("{}{}{}", " ".repeat(l), content, " ".repeat(d - l))),
        };
        return if ok { Ok("fits") } else { Err(("pad: content that fits is not padded to exactly the width on the chosen side(s)".into(), format!("content {:?} width {width} align {align}: got {:?}", content, out))) };
    }
    if !truncate {
        return if out == content { Ok("wider-untruncated") } else { Err(("notrunc: content wider than the field must be emitted unshortened".into(), format!("content {:?} width {width}: got {:?}", content, out))) };
    }
    // truncation requested
    let class_of = |what: &str| {
        let kind = if c.contains(&4) { "ANSI-coloured" } else if c.contains(&3) { "double-width" } else if c.contains(&2) { "multi-byte" } else { "ascii" };
        format!("truncate: {what} ({kind} content)")
    };
    let (rest, esc_ok) = strip_csi(out);
    if !esc_ok {
        return Err((class_of("an escape sequence is cut"), format!("content {:?} width {width} align {align}: got {:?}", content, out)));
    }
    let Some(w) = width_of_visible(&rest) else {
        return Err((class_of("a character or escape sequence is split"), format!("content {:?} width {width} align {align}: got {:?}", content, out)));
    };
    // contiguous run of the content's visible characters anchored by the alignment
    let vis_s: String = vis.iter().map(|v| v.0).collect();
    let anchored = match align {
        '<' => vis_s.starts_with(&rest),
        '>' => vis_s.ends_with(&rest),
        _ => vis_s.contains(&rest),
    };
    if !anchored {
        return Err((class_of("kept text is not the start/middle/end run selected by the alignment"), format!("content {:?} width {width} align {align}: got {:?}", content, out)));
    }
    if w == width {
        return Ok("truncated");
    }
    // W-1 only when W is unreachable because the cut falls inside a double-width character
    let reachable = {
        let widths: Vec<usize> = vis.iter().map(|v| v.1).collect();
        match align {
            '<' => {
                let mut acc = 0;
                widths.iter().any(|x| {
                    acc += x;
                    acc == width
                })
            }
            '>' => {
                let mut acc = 0;
                widths.iter().rev().any(|x| {
                    acc += x;
                    acc == width
                })
            }
            _ => {
                // centre: some window near the middle has exactly `width` columns
                (0..widths.len()).any(|i| {
                    let mut acc = 0;
                    widths[i..].iter().any(|x| {
                        acc += x;
                        acc == width
                    })
                })
            }
        }
    };
    if c.contains(&3) && ((w + 1 == width && (!reachable || align == '^')) || (align == '^' && w + 2 == width)) {
        // centre has two cut edges, each of which can fall inside a double-width character
        return Ok("truncated-short-by-wide-char");
    }
    if width == 0 && w == 0 {
        return Ok("truncated");
    }
    Err((class_of("kept columns differ from the field width"), format!("content {:?} width {width} align {align}: got {:?} = {w} columns", content, out)))
}

pub fn run(tier: Tier, shard: Shard, stats: &mut Stats) {
    let maxlen = if tier == Tier::Quick { 5 } else { 7 };
    let all = contents(maxlen);
    let mut widths: Vec<usize> = (0..=12).collect();
    widths.extend([255, 65535]);
    let catcher = LineCatcher::new(200);
    let mut case = 0u64;
    // {msg:...}, and the same through a custom key whose tracker writes the content
    let shared: std::sync::Arc<std::sync::Mutex<String>> = Default::default();
    for key in ["msg", "ck", "msg.styled"] {
    for &w in &widths {
        for align in ['<', '^', '>'] {
            for truncate in [false, true] {
                // (a style suffix renders nothing here - colours are off - and leaves width, alignment and truncation alone)
                let (k, suffix) = if key == "msg.styled" { ("msg", ".red/blue") } else { (key, "") };
                let tpl = format!("|{{{k}:{}{}{}{suffix}}}|", align, w, if truncate { "!" } else { "" });
                let cell = shared.clone();
                let style = ProgressStyle::with_template(&tpl).unwrap().with_key("ck", move |_: &indicatif::ProgressState, w: &mut dyn std::fmt::Write| w.write_str(&cell.lock().unwrap()).unwrap());
                let pb = bar_on(&catcher, Some(5), style);
                for c in &all {
                    if w > 12 && c.len() > 2 {
                        continue;
                    }
                    case += 1;
                    if !shard.owns(case) {
                        continue;
                    }
                    stats.evaluations += 1;
                    stats.transitions += 1;
                    let content = text_of(c);
                    let r = catch(|| {
                        if key != "ck" {
                            pb.set_message(content.clone());
                        } else {
                            *shared.lock().unwrap() = content.clone();
                        }
                        frame_lines(&catcher, &pb)
                    });
                    let hist = vec![tpl.clone(), format!("{:?}", content)];
                    match r {
                        Err(p) => stats.violation(Violation { class: format!("panic: {}", panic_class(&p)), config: "msg".into(), history: hist, detail: p }),
                        Ok(lines) => {
                            let line = lines.first().cloned().unwrap_or_default();
                            let Some(field) = line.strip_prefix('|').and_then(|l| l.strip_suffix('|')) else {
                                stats.violation(Violation { class: "frame: field delimiters lost".into(), config: "msg".into(), history: hist, detail: format!("{:?}", lines) });
                                continue;
                            };
                            match judge(c, field, w, align, truncate) {
                                Ok(kind) => {
                                    stats.state(hash_of(&(kind, w.min(13), align, truncate, c.len(), c.iter().max())), !c.is_empty());
                                    stats.outcomes.insert(hash_of(&kind));
                                }
                                Err((class, detail)) => stats.violation(Violation { class, config: "msg".into(), history: hist, detail }),
                            }
                        }
                    }
                }
                pb.abandon();
            }
        }
    }
    }
    // {wide_msg}: a truncating field as wide as the rest of the line
    // (also with other template lines before and after the line that holds it: their columns are not its line's)
    for (pre, post) in [("", ""), ("yyyy\n", ""), ("{prefix:8}|\n", "\nzz"), ("", "\nzz")] {
    let framed = !pre.is_empty() || !post.is_empty();
    for tw in 1..=12u16 {
        let catcher = LineCatcher::new(tw);
        for other in 0..=3usize {
            for (align, astr) in [('<', ""), ('>', ":>"), ('^', ":^")] {
                for last in [true, false] {
                    let lead = "x".repeat(other);
                    let tpl = if last { format!("{pre}{lead}{{wide_msg{astr}}}{post}") } else { format!("{pre}{{wide_msg{astr}}}{lead}{post}") };
                    if !last && other == 0 {
                        continue;
                    }
                    let style = ProgressStyle::with_template(&tpl).unwrap();
                    let pb = bar_on(&catcher, Some(5), style);
                    for c in &all {
                        if c.len() > 4 || (framed && c.len() > 2) {
                            continue;
                        }
                        case += 1;
                        if !shard.owns(case) {
                            continue;
                        }
                        stats.evaluations += 1;
                        stats.transitions += 1;
                        let content = text_of(c);
                        let r = catch(|| {
                            pb.set_message(content.clone());
                            frame_lines(&catcher, &pb)
                        });
                        let hist = vec![tpl.clone(), format!("terminal width {tw}"), format!("{:?}", content)];
                        let left = (tw as usize).saturating_sub(other);
                        match r {
                            Err(p) => stats.violation(Violation { class: format!("panic: {}", panic_class(&p)), config: "wide_msg".into(), history: hist, detail: p }),
                            Ok(lines) => {
                                let line = lines.get(usize::from(!pre.is_empty())).cloned().unwrap_or_default();
                                let field: String = if last { line.strip_prefix(&lead).unwrap_or(&line).to_string() } else { line.strip_suffix(&lead).unwrap_or(&line).to_string() };
                                // a trailing wide_msg is right-trimmed by the crate: re-pad for judging
                                let (vis_rest, _) = strip_csi(&field);
                                let have = width_of_visible(&vis_rest).unwrap_or(0);
                                let content_cols: usize = visible(c).iter().map(|v| v.1).sum();
                                let field_j = if last && have < left && content_cols <= left { format!("{}{}", field, " ".repeat(left - have)) } else { field.clone() };
                                match judge(c, &field_j, left, align, true) {
                                    Ok(kind) => {
                                        stats.state(hash_of(&("wide", kind, left, align, c.len(), c.iter().max())), !c.is_empty());
                                    }
                                    Err((class, detail)) => stats.violation(Violation { class: format!("wide_msg {class}"), config: "wide_msg".into(), history: hist, detail }),
                                }
                            }
                        }
                    }
                    pb.abandon();
                }
            }
        }
    }
    }
    // the terminal is resized between two ordinary redraws (0 ms .. 1 s apart): wide_msg follows the new width
    for (w1, w2) in [(30u16, 12u16), (12, 30), (20, 21)] {
        for gap_ms in [0u64, 1, 100, 249, 1000] {
            case += 1;
            if !shard.owns(case) {
                continue;
            }
            stats.evaluations += 1;
            stats.transitions += 1;
            let catcher = LineCatcher::new(w1);
            let hist = vec!["[{wide_msg}]".to_string(), format!("terminal {w1} columns, redraw, {gap_ms} ms, terminal {w2} columns, redraw"), "message abc".to_string()];
            let r = catch(|| {
                let pb = bar_on(&catcher, Some(5), ProgressStyle::with_template("[{wide_msg}]").unwrap()).with_message("abc");
                pb.tick();
                catcher.resize(w2);
                crate::clock::advance_ms(gap_ms);
                let l = crate::render::frame_lines_tick(&catcher, &pb);
                pb.abandon();
                l
            });
            match r {
                Err(p) => stats.violation(Violation { class: format!("panic: {}", panic_class(&p)), config: "wide_msg-resize".into(), history: hist, detail: p }),
                Ok(lines) => {
                    let line = lines.first().cloned().unwrap_or_default();
                    let want = format!("[abc{}]", " ".repeat(w2 as usize - 5));
                    if line != want {
                        stats.violation(Violation { class: "wide_msg: field does not follow the current terminal width after a resize".into(), config: "wide_msg-resize".into(), history: hist, detail: format!("rendered {:?} ({} columns), expected {} columns", line, line.chars().count(), w2) });
                    } else {
                        stats.state(hash_of(&("wide-resize", w1, w2, gap_ms)), true);
                    }
                }
            }
        }
    }
    // two wide elements on two template lines: each line is laid out with its own element
    {
        let catcher = LineCatcher::new(12);
        for (tpl, want) in [
            ("{wide_msg:>}|\n{wide_msg}|", vec!["ghijklmnopq|", "abcdefghijk|"]),
            ("{wide_msg}|\n{wide_msg:>}|", vec!["abcdefghijk|", "ghijklmnopq|"]),
            ("{wide_bar}|\n{wide_msg}|", vec!["###>-------|", "abcdefghijk|"]),
            ("{wide_msg:^}|\n{wide_bar}|", vec!["defghijklmn|", "###>-------|"]),
        ] {
            case += 1;
            if !shard.owns(case) {
                continue;
            }
            stats.evaluations += 1;
            stats.transitions += 1;
            let hist = vec![tpl.to_string(), "terminal width 12".to_string(), "message abcdefghijklmnopq, position 3 of 9".to_string()];
            let r = catch(|| {
                let pb = bar_on(&catcher, Some(9), ProgressStyle::with_template(tpl).unwrap().progress_chars("#>-")).with_message("abcdefghijklmnopq").with_position(3);
                let l = frame_lines(&catcher, &pb);
                pb.abandon();
                l
            });
            match r {
                Err(p) => stats.violation(Violation { class: format!("panic: {}", panic_class(&p)), config: "two wide elements".into(), history: hist, detail: p }),
                Ok(lines) => {
                    if lines != want {
                        stats.violation(Violation { class: "wide: a wide element on one template line is laid out with the kind or alignment of the one on another line".into(), config: "two wide elements".into(), history: hist, detail: format!("rendered {:?}, expected {:?}", lines, want) });
                    } else {
                        stats.state(hash_of(&("two-wide", tpl)), true);
                    }
                }
            }
        }
    }
    // {spinner:W} with tick strings of unequal width: the field is W columns, padded on the chosen side
    {
        let catcher = LineCatcher::new(40);
        for w in [0usize, 2, 3, 6, 7] {
            for (align, a) in [('<', "<"), ('^', "^"), ('>', ">")] {
                for ticks in [0u64, 1, 2] {
                    case += 1;
                    if !shard.owns(case) {
                        continue;
                    }
                    stats.evaluations += 1;
                    stats.transitions += 1;
                    let tpl = format!("[{{spinner:{a}{w}}}]");
                    let frames = ["..", "....", "o", "done"];
                    let hist = vec![tpl.clone(), format!("tick_strings {:?}, {ticks} ticks", frames)];
                    let r = catch(|| {
                        let pb = bar_on(&catcher, Some(9), ProgressStyle::with_template(&tpl).unwrap().tick_strings(&frames));
                        for _ in 0..ticks {
                            pb.tick();
                        }
                        let l = frame_lines(&catcher, &pb);
                        pb.abandon();
                        l
                    });
                    match r {
                        Err(p) => stats.violation(Violation { class: format!("panic: {}", panic_class(&p)), config: "spinner".into(), history: hist, detail: p }),
                        Ok(lines) => {
                            let content = frames[(ticks % 3) as usize];
                            let n = content.len();
                            let field = if n >= w {
                                content.to_string()
                            } else {
                                let d = w - n;
                                match align {
                                    '<' => format!("{content}{}", " ".repeat(d)),
                                    '>' => format!("{}{content}", " ".repeat(d)),
                                    _ => format!("{}{content}{}", " ".repeat(d / 2), " ".repeat(d - d / 2)),
                                }
                            };
                            let want = format!("[{field}]");
                            let alt = if align == '^' && n < w { let d = w - n; format!("[{}{content}{}]", " ".repeat(d - d / 2), " ".repeat(d / 2)) } else { want.clone() };
                            let line = lines.first().cloned().unwrap_or_default();
                            if line != want && line != alt {
                                stats.violation(Violation { class: "pad: a {spinner} field with a width is not exactly that many columns / padded on the wrong side".into(), config: "spinner".into(), history: hist, detail: format!("rendered {:?}, expected {:?}", line, want) });
                            } else {
                                stats.state(hash_of(&("spinner", w, align, ticks)), true);
                            }
                        }
                    }
                }
            }
        }
    }
    // a tab in the content and a tab width that changes between two draws: the field is laid out with
    // the width the text has under the *current* tab width
    {
        let catcher = LineCatcher::new(30);
        for (spec, key, w, align, trunc) in [("{msg:12}", "msg", 12usize, '<', false), ("{prefix:>12}", "prefix", 12, '>', false), ("{msg:6!}", "msg", 6, '<', true), ("{msg:^9}", "msg", 9, '^', false), ("{wide_msg}", "msg", 28, '<', true)] {
            for (t1, t2) in [(8usize, 2usize), (2, 8), (4, 1), (0, 3), (3, 0), (4, 4)] {
                for text in ["a\tb", "\t", "ab\tc\td"] {
                    for first_draw in [true, false] {
                        case += 1;
                        if !shard.owns(case) {
                            continue;
                        }
                        stats.evaluations += 1;
                        stats.transitions += 1;
                        let tpl = format!("|{spec}|");
                        let hist = vec![tpl.clone(), format!("{key} {:?}", text), format!("tab width {t1}{}, then set_tab_width({t2}), draw", if first_draw { ", draw" } else { "" })];
                        let r = catch(|| {
                            let pb = bar_on(&catcher, Some(5), ProgressStyle::with_template(&tpl).unwrap()).with_tab_width(t1);
                            if key == "msg" {
                                pb.set_message(text);
                            } else {
                                pb.set_prefix(text);
                            }
                            if first_draw {
                                pb.tick();
                            }
                            pb.set_tab_width(t2);
                            let l = frame_lines(&catcher, &pb);
                            pb.abandon();
                            l
                        });
                        match r {
                            Err(p) => stats.violation(Violation { class: format!("panic: {}", panic_class(&p)), config: "tab-width change".into(), history: hist, detail: p }),
                            Ok(lines) => {
                                let line = lines.first().cloned().unwrap_or_default();
                                let content = text.replace('\t', &" ".repeat(t2));
                                let n = content.chars().count();
                                let want_field = if n > w {
                                    if trunc { content.chars().take(w).collect::<String>() } else { content.clone() }
                                } else {
                                    let d = w - n;
                                    match align {
                                        '<' => format!("{content}{}", " ".repeat(d)),
                                        '>' => format!("{}{content}", " ".repeat(d)),
                                        _ => format!("{}{content}{}", " ".repeat(d / 2), " ".repeat(d - d / 2)),
                                    }
                                };
                                let want = format!("|{want_field}|");
                                let alt = if align == '^' && n <= w { let d = w - n; format!("|{}{content}{}|", " ".repeat(d - d / 2), " ".repeat(d / 2)) } else { want.clone() };
                                if line != want && line != alt {
                                    stats.violation(Violation { class: "tab: a field is not laid out with the text's width under the current tab width".into(), config: "tab-width change".into(), history: hist, detail: format!("rendered {:?}, expected {:?}", line, want) });
                                } else {
                                    stats.state(hash_of(&("tab", spec, t1, t2, text, first_draw)), true);
                                }
                            }
                        }
                    }
                }
            }
        }
    }
    // wide_msg is as wide as the *rest of the line*, also when a fixed-width, non-truncating field on
    // the same line is overflowed by its content
    for tw in 8..=16u16 {
        let catcher = LineCatcher::new(tw);
        for (pw, prefix) in [(2usize, "pppp"), (4, "pppp"), (6, "pppp"), (3, "日日")] {
            for last in [true, false] {
                for c in all.iter().filter(|c| c.len() <= 3) {
                    case += 1;
                    if !shard.owns(case) {
                        continue;
                    }
                    stats.evaluations += 1;
                    stats.transitions += 1;
                    let tpl = if last { format!("{{prefix:{pw}}} {{wide_msg}}") } else { format!("{{prefix:{pw}}} {{wide_msg}}|") };
                    let content = text_of(c);
                    let hist = vec![tpl.clone(), format!("terminal width {tw}"), format!("prefix {:?}", prefix), format!("{:?}", content)];
                    let r = catch(|| {
                        let pb = bar_on(&catcher, Some(5), ProgressStyle::with_template(&tpl).unwrap()).with_prefix(prefix).with_message(content.clone());
                        let l = frame_lines(&catcher, &pb);
                        pb.abandon();
                        l
                    });
                    match r {
                        Err(p) => stats.violation(Violation { class: format!("panic: {}", panic_class(&p)), config: "wide_msg+field".into(), history: hist, detail: p }),
                        Ok(lines) => {
                            let line = lines.first().cloned().unwrap_or_default();
                            let pcols = width_of_visible(prefix).unwrap_or(0).max(pw);
                            let other = pcols + 1 + usize::from(!last);
                            let left = (tw as usize).saturating_sub(other);
                            let (vis, _) = strip_csi(&line);
                            let total = width_of_visible(&vis).unwrap_or(usize::MAX);
                            let content_cols: usize = visible(c).iter().map(|v| v.1).sum();
                            // the whole line is exactly the terminal width (or shorter only by a trimmed / wide-char remainder)
                            let ok = if last { total <= tw as usize && (content_cols <= left || total + 1 >= tw as usize) } else { total == tw as usize || (c.contains(&3) && total + 1 == tw as usize) };
                            if !ok {
                                stats.violation(Violation { class: "wide_msg: not as wide as the rest of the line next to an overflowing fixed-width field".into(), config: "wide_msg+field".into(), history: hist, detail: format!("line {:?} is {total} columns on a {tw}-column terminal", line) });
                            } else {
                                stats.state(hash_of(&("wide+field", tw, pw, last, c.len(), c.iter().max())), true);
                            }
                        }
                    }
                }
            }
        }
    }
    // every kind of placeholder with a width renders exactly that many columns when its content fits
    {
        let catcher = LineCatcher::new(200);
        for w in 0..=12usize {
            for (align, a) in [('<', "<"), ('^', "^"), ('>', ">")] {
                for (key, content) in [("prefix", "pre".to_string()), ("pos", "7".to_string()), ("len", "9".to_string()), ("zz", String::new()), ("bar", String::new()), ("spinner", "x".to_string())] {
                    case += 1;
                    if !shard.owns(case) {
                        continue;
                    }
                    stats.evaluations += 1;
                    stats.transitions += 1;
                    let tpl = format!("|{{{key}:{a}{w}}}|");
                    let hist = vec![tpl.clone()];
                    let r = catch(|| {
                        let style = ProgressStyle::with_template(&tpl).unwrap().progress_chars("＃－").tick_chars("x ");
                        // (the bar key is also drawn with the position beyond the length)
                        let pb = bar_on(&catcher, Some(9), style).with_prefix("pre").with_position(if key == "bar" && w % 2 == 1 { 30 } else { 7 });
                        let l = frame_lines(&catcher, &pb);
                        pb.abandon();
                        l
                    });
                    match r {
                        Err(p) => stats.violation(Violation { class: format!("panic: {}", panic_class(&p)), config: "keys".into(), history: hist, detail: p }),
                        Ok(lines) => {
                            let line = lines.first().cloned().unwrap_or_default();
                            let field = line.strip_prefix('|').and_then(|l| l.strip_suffix('|')).unwrap_or(&line).to_string();
                            let cols: usize = field.chars().map(|ch| if ch == '＃' || ch == '－' { 2 } else { 1 }).sum();
                            let content_cols = if key == "bar" { w / 2 * 2 } else { content.chars().count() };
                            let want = content_cols.max(w);
                            let side_ok = match (key, align) {
                                ("bar", _) => true,
                                (_, '<') => field.starts_with(&content),
                                (_, '>') => field.ends_with(&content),
                                _ => field.trim() == content,
                            };
                            if cols != want || !side_ok {
                                stats.violation(Violation { class: format!("pad: a {{{key}}} field with a width is not exactly that many columns / padded on the wrong side"), config: "keys".into(), history: hist, detail: format!("{:?} is {cols} columns, expected {want}", field) });
                            } else {
                                stats.state(hash_of(&("keys", key, w, align)), true);
                            }
                        }
                    }
                }
            }
        }
    }
    stats.sample(json!({"template": "|{msg:^5!}|", "content": "a日é\u{1b}[31mz\u{1b}[0mb"}));
    stats.sample(json!({"template": "xx{wide_msg:>}", "terminal_width": 7, "content": "日日ab"}));
}

pub fn meta(tier: Tier) -> Meta {
    let l = if tier == Tier::Quick { 4 } else { 7 };
    Meta {
        level: "exploration",
        rule: format!("every content string of <= {l} units over {{a, b, é (2 bytes/1 col), 日 (3 bytes/2 cols), SGR-wrapped z (9 bytes/1 col)}} x width {{0..=12, 255, 65535}} x align {{<,^,>}} x truncate {{off,on}} through {{msg:...}} on a real bar; {{wide_msg}} / :> / :^ first or last on the line with 0-3 other columns on terminals of 1..=12 columns, alone and with other template lines before/after its line; the same next to an overflowing fixed-width field; every keyed field kind with widths 0..=12; tabbed text redrawn after set_tab_width through padded, truncating, centred and wide fields; column-exact oracle; distinct = (outcome kind, width, align, content shape); non-trivial = non-empty content"),
        assumptions: vec!["centre padding may split an odd remainder either way".into(), "a truncated field may be one column short only when the cut would fall inside a double-width character".into()],
        bounds: json!({"max_units": l}),
        exhaustive: true,
    }
}

pub fn replay(v: &Value) -> i32 {
    println!("case: {}\nrecorded: {}", v["history"], v["detail"]);
    1
}
