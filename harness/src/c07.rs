//! C07 — position and length bookkeeping (HIST part; the concurrent part is the loom engine).

use crate::barops::{apply, getters, BOp, Fin, RefState};
use crate::render::{bar_on, frame_lines, LineCatcher};
use crate::report::{hash_of, Dfs, Hist, Shard, Stats, Verdict, Violation};
use crate::util::{catch, panic_class};
use crate::{clock, Meta, Tier};
use indicatif::{ProgressState, ProgressStyle};
use serde_json::{json, Value};
use std::fmt::Write;

const XS: [u64; 6] = [0, 1, 2, 1 << 63, u64::MAX - 1, u64::MAX];

pub struct C07 {
    /// the bar is a member of a MultiProgress (and MultiProgress::remove is in the alphabet)
    pub multi: bool,
    pub len0: Option<u64>,
    pub xs: Vec<u64>,
    /// the bar is built with_position(this); reset_elapsed/reset_eta are in the alphabet then
    pub pos0: Option<u64>,
    /// the bar is built with_finish(Abandon) and restyling (set_style) is in the alphabet: the finish
    /// behaviour belongs to the bar, not to the style
    pub abandon: bool,
}

impl Hist for C07 {
    type Op = BOp;

    fn alphabet(&self, _p: &[BOp]) -> Vec<BOp> {
        let mut v = Vec::new();
        for &x in &self.xs {
            v.extend([BOp::Inc(x), BOp::Dec(x), BOp::SetPos(x), BOp::SetLen(x), BOp::IncLen(x), BOp::DecLen(x), BOp::UpdatePos(x), BOp::UpdateLen(x)]);
        }
        v.extend([BOp::UnsetLen, BOp::Reset, BOp::Finish, BOp::Abandon, BOp::FinishClear, BOp::Tick, BOp::FinishUsingStyle, BOp::FinishMsg("f"), BOp::AbandonMsg("a"), BOp::WrapIter3]);
        if self.multi {
            v.push(BOp::MpRemove);
        }
        if self.pos0.is_some() {
            v.extend([BOp::ResetElapsed, BOp::ResetEta]);
        }
        if self.abandon {
            v.push(BOp::Style(0));
        }
        v
    }

    fn run(&self, hist: &[BOp], stats: &mut Stats) -> Verdict {
        clock::reset();
        let catcher = LineCatcher::new(40);
        let style = ProgressStyle::with_template("{f}|{percent}|{pos}|{len}").unwrap().with_key("f", |s: &ProgressState, w: &mut dyn Write| write!(w, "{:?}", s.fraction()).unwrap());
        let mp = self.multi.then(|| indicatif::MultiProgress::with_draw_target(indicatif::ProgressDrawTarget::term_like(Box::new(catcher.clone()))));
        let pb = match mp.as_ref() {
            Some(m) => m.add(indicatif::ProgressBar::with_draw_target(self.len0, indicatif::ProgressDrawTarget::hidden()).with_style(style.clone())),
            None => bar_on(&catcher, self.len0, style.clone()),
        };
        // (the operations go through a handle cloned before with_position: both see one position)
        let early_clone = pb.clone();
        let pb = match self.pos0 {
            Some(p) => pb.with_position(p),
            None => pb,
        };
        let pb = if self.abandon { pb.with_finish(indicatif::ProgressFinish::Abandon) } else { pb };
        let mut rf = RefState::new(self.len0, if self.abandon { Fin::Abandon } else { Fin::AndClear }, 0);
        rf.pos = self.pos0.unwrap_or(0);
        let shown: Vec<String> = hist.iter().map(|o| format!("{:?}", o)).collect();
        let cfg = format!("initial length {:?}{}{}{}", self.len0, if self.abandon { ", built with_finish(Abandon), set_style among the operations" } else { "" }, if self.multi { ", member of a MultiProgress" } else { "" }, match self.pos0 { Some(p) => format!(", built with_position({p})"), None => String::new() });
        for (i, op) in hist.iter().enumerate() {
            clock::advance_ms(7);
            if *op == BOp::MpRemove {
                if let Some(m) = mp.as_ref() {
                    m.remove(&pb);
                }
            }
            let through = if self.pos0.is_some() && i % 2 == 0 { &early_clone } else { &pb };
            let r = if matches!(op, BOp::Style(_)) { catch(|| through.set_style(style.clone())) } else { catch(|| apply(through, op)) };
            if let Err(p) = r {
                let _ = catch(move || drop(pb));
                return Verdict::Bad(Violation { class: format!("panic: {}", panic_class(&p)), config: cfg, history: shown[..=i].to_vec(), detail: p });
            }
            rf.step(op);
        }
        let r = catch(|| (getters(&pb), frame_lines(&catcher, &pb)));
        let _ = catch(|| pb.abandon());
        let _ = catch(move || drop(pb));
        let bad = |class: &str, detail: String| Verdict::Bad(Violation { class: class.into(), config: cfg.clone(), history: shown.clone(), detail });
        let (g, lines) = match r {
            Err(p) => return bad(&format!("panic in getter/draw: {}", panic_class(&p)), p),
            Ok(x) => x,
        };
        let want = rf.getters();
        if g.pos != want.pos {
            return bad("position: position() differs from the value defined by the call history", format!("got {} expected {}", g.pos, want.pos));
        }
        if g.len != want.len {
            return bad("length: length() differs from the value defined by the call history", format!("got {:?} expected {:?}", g.len, want.len));
        }
        if g.finished != want.finished {
            return bad("finished: is_finished() differs", format!("got {} expected {}", g.finished, want.finished));
        }
        // (a bar removed from its MultiProgress paints nothing: bookkeeping only)
        if !(rf.finished && rf.hidden_done) && !hist.contains(&BOp::MpRemove) {
            let line = lines.first().cloned().unwrap_or_default();
            let parts: Vec<&str> = line.split('|').collect();
            if parts.len() != 4 {
                return bad("frame: unexpected shape", line);
            }
            let f: f32 = parts[0].parse().unwrap_or(f32::NAN);
            let law = match (want.pos, want.len) {
                (_, None) => f == 0.0,
                (_, Some(0)) => f == 1.0,
                (0, _) => f == 0.0,
                (p, Some(l)) => {
                    let exact = (p as f64 / l as f64).min(1.0);
                    (0.0..=1.0).contains(&f) && (f as f64 - exact).abs() <= 1e-6
                }
            };
            if !law {
                return bad("fraction: completed fraction outside [0,1] or not pos/len (1 for zero length, 0 for unknown length)", format!("fraction {f} for pos {} len {:?}", want.pos, want.len));
            }
            let pct: f64 = parts[1].parse().unwrap_or(-1.0);
            if !(0.0..=100.0).contains(&pct) || (pct - (f as f64 * 100.0)).abs() > 0.5001 {
                return bad("percent: {percent} disagrees with the completed fraction", format!("{} vs fraction {f}", parts[1]));
            }
            if parts[2] != want.pos.to_string() || parts[3] != want.len.unwrap_or(want.pos).to_string() {
                return bad("frame: {pos}/{len} differ from the getters", line);
            }
        }
        stats.outcomes.insert(hash_of(&(want.pos, want.len)));
        Verdict::Ok { hash: hash_of(&(want.pos, want.len, want.finished)), nontrivial: want.pos != 0 || want.len != self.len0 }
    }
}

fn configs(tier: Tier) -> Vec<(C07, usize)> {
    match tier {
        Tier::Quick => vec![(C07 { multi: false, len0: Some(9), xs: vec![1], pos0: None, abandon: true }, 3), (C07 { multi: false, len0: Some(9), xs: vec![1, u64::MAX], pos0: Some(4), abandon: false }, 3), (C07 { multi: true, len0: Some(5), xs: vec![1, u64::MAX], pos0: None, abandon: false }, 3), (C07 { multi: false, len0: Some(5), xs: XS.to_vec(), pos0: None, abandon: false }, 3), (C07 { multi: false, len0: Some(5), xs: vec![1, u64::MAX], pos0: None, abandon: false }, 4), (C07 { multi: false, len0: None, xs: vec![1, u64::MAX], pos0: None, abandon: false }, 3), (C07 { multi: false, len0: Some(u64::MAX), xs: vec![0, 1 << 63, u64::MAX], pos0: None, abandon: false }, 3)],
        Tier::Thorough => vec![(C07 { multi: true, len0: Some(9), xs: vec![1, u64::MAX], pos0: None, abandon: true }, 4), (C07 { multi: false, len0: Some(9), xs: vec![1, 2, u64::MAX], pos0: Some(4), abandon: false }, 4), (C07 { multi: true, len0: None, xs: vec![1], pos0: Some(u64::MAX), abandon: false }, 4), (C07 { multi: true, len0: Some(5), xs: vec![1, 2, u64::MAX], pos0: None, abandon: false }, 4), (C07 { multi: true, len0: Some(u64::MAX), xs: vec![1], pos0: None, abandon: false }, 4), (C07 { multi: false, len0: Some(5), xs: XS.to_vec(), pos0: None, abandon: false }, 4), (C07 { multi: false, len0: None, xs: XS.to_vec(), pos0: None, abandon: false }, 3), (C07 { multi: false, len0: Some(u64::MAX), xs: vec![1, 1 << 63, u64::MAX], pos0: None, abandon: false }, 5)],
    }
}

pub fn run(tier: Tier, shard: Shard, stats: &mut Stats) {
    for (cfg, depth) in configs(tier) {
        Dfs::new(&cfg, depth, shard, 1).explore(stats);
    }
}

pub fn meta(tier: Tier) -> Meta {
    Meta {
        level: "model_checking",
        rule: "stateless DFS over all histories of inc/dec/set_position/set_length/inc_length/dec_length/update(set_pos)/update(set_len) with arguments from {0,1,2,2^63,u64::MAX-1,u64::MAX} plus unset_length/reset/finish/abandon/finish_and_clear/finish_using_style/finish_with_message/abandon_with_message/tick and a wrapped iterator driven to exhaustion, to the stated depth; after every history position()/length()/is_finished() are compared with a wrapping/saturating u64 reference and the completed fraction (captured through a custom key) and {percent} are checked; non-trivial = position or length changed. The concurrent-increment clause is decided by the loom engine (bin/check-loom L07), reported in this property's evidence under coverage.loom".into(),
        assumptions: vec!["overflow checks are enabled in the build, so silent wrap-around inside the crate would panic".into()],
        bounds: json!({"configurations": configs(tier).iter().map(|(c, d)| json!({"initial_length": c.len0, "arguments": c.xs, "depth": d, "alphabet": c.alphabet(&[]).len()})).collect::<Vec<_>>()}),
        exhaustive: true,
    }
}

pub fn replay(v: &Value) -> i32 {
    let hist: Vec<String> = v["history"].as_array().map(|a| a.iter().map(|s| s.as_str().unwrap_or("").to_string()).collect()).unwrap_or_default();
    for t in [Tier::Quick, Tier::Thorough] {
        for (cfg, _) in configs(t) {
            if format!("initial length {:?}", cfg.len0) == v["config"].as_str().unwrap_or("") {
                let r = crate::replay_hist(&cfg, &hist, "C07");
                if r != 2 {
                    return r;
                }
            }
        }
    }
    2
}
