//! C09 — rate and ETA estimator laws (HIST over virtual time, hidden bar).

use crate::report::{hash_of, Dfs, Hist, Shard, Stats, Verdict, Violation};
use crate::util::{catch, panic_class};
use crate::{clock, Meta, Tier};
use indicatif::{ProgressBar, ProgressDrawTarget};
use serde_json::{json, Value};
use std::time::Duration;

const LEN: u64 = 1_000_000_000_000_000_000;
const MS: u64 = 1_000_000;
const S: u64 = 1_000_000_000;
const GAPS: [u64; 6] = [MS, 7 * MS, S, 15 * S, 3600 * S, 86_400 * S];
const DELTAS: [u64; 3] = [1, 1_000, 1_000_000_000];
const QUERIES: [u64; 8] = [1, MS, 500 * MS, S, 5 * S, 15 * S, 3600 * S, 30 * 86_400 * S];

#[derive(Clone, Copy, Debug, PartialEq)]
pub enum Ev {
    Inc(u64, u64),
    ResetEta,
    Reset,
    ResetElapsed,
    Rewind,
    /// the same backwards move made with dec()
    RewindDec,
    /// reset_eta / a backwards seek only 1 ms after the previous event (and after the read that precedes every event)
    ResetEtaSoon,
    RewindSoon,
    /// set_position(current position), no time passes: not a seek at all
    SetSame,
    Finish,
    Abandon,
}

pub struct C09 {
    /// the bar is built with with_position(this) (a resumed transfer; positions beyond 2^53)
    pub base_pos: Option<u64>,
    /// the bar is built with with_elapsed(this many seconds)
    pub with_elapsed: Option<u64>,
    pub steady: Option<u64>,
    /// the bar has no length (per_sec laws still apply; eta and duration are zero)
    pub no_len: bool,
    /// 0: plain; 1: a tick() (an update that carries no progress) in the middle of every gap;
    /// 2: the starting position is set through ProgressBarIter::with_position instead of ProgressBar::with_position;
    /// 3: after the first event the bar is handed to a (hidden) MultiProgress: being added is not a fresh start
    pub variant: u8,
}

#[derive(Clone, Debug)]
struct Q {
    per_sec: f64,
    eta: Duration,
    duration: Duration,
    elapsed: Duration,
}

fn query(pb: &ProgressBar, base: u64) -> Vec<Q> {
    let mut v = Vec::new();
    for off in QUERIES {
        clock::set_ns(base + off);
        v.push(Q { per_sec: pb.per_sec(), eta: pb.eta(), duration: pb.duration(), elapsed: pb.elapsed() });
    }
    clock::set_ns(base);
    v
}

fn apply(pb: &ProgressBar, ev: &Ev, pos: &mut u64, ticks: bool) {
    // reading the estimate is free of side effects: it happens before every event
    let _ = (pb.per_sec(), pb.eta(), pb.duration());
    match ev {
        Ev::SetSame => pb.set_position(*pos),
        Ev::ResetEtaSoon => {
            clock::advance_ns(MS);
            pb.reset_eta();
        }
        Ev::RewindSoon => {
            clock::advance_ns(MS);
            *pos /= 2;
            pb.set_position(*pos);
        }
        Ev::Inc(gap, d) => {
            if ticks && *gap >= 2 {
                clock::advance_ns(*gap / 2);
                pb.tick();
                clock::advance_ns(*gap - *gap / 2);
            } else {
                clock::advance_ns(*gap);
            }
            pb.inc(*d);
            *pos += d;
        }
        Ev::ResetEta => {
            clock::advance_ns(S);
            pb.reset_eta();
        }
        Ev::Reset => {
            clock::advance_ns(S);
            pb.reset();
            *pos = 0;
        }
        Ev::ResetElapsed => {
            clock::advance_ns(S);
            pb.reset_elapsed();
        }
        Ev::Rewind => {
            clock::advance_ns(S);
            *pos /= 2;
            pb.set_position(*pos);
        }
        Ev::RewindDec => {
            clock::advance_ns(S);
            let d = *pos - *pos / 2;
            *pos /= 2;
            pb.dec(d);
        }
        Ev::Finish => {
            clock::advance_ns(S);
            pb.finish();
            *pos = LEN;
        }
        Ev::Abandon => {
            clock::advance_ns(S);
            pb.abandon();
        }
    }
}

fn rel_close(a: f64, b: f64, tol: f64) -> bool {
    if a == b {
        return true;
    }
    (a - b).abs() <= tol * a.abs().max(b.abs())
}

impl C09 {
    fn config(&self) -> String {
        let base = match self.steady {
            None => if self.no_len { "transient, unknown length".to_string() } else { "transient".to_string() },
            Some(r) => format!("steady {r}/s"),
        };
        let base = match self.with_elapsed {
            Some(s) => format!("{base}, built with_elapsed({s} s)"),
            None => base,
        };
        let base = match self.variant {
            1 => format!("{base}, a tick() in the middle of every gap"),
            2 => format!("{base}, position set through ProgressBarIter::with_position"),
            3 => format!("{base}, added to a MultiProgress after the first update"),
            _ => base,
        };
        match self.base_pos {
            Some(b) => format!("{base}, built with_position({b})"),
            None => base,
        }
    }
}

impl Hist for C09 {
    type Op = Ev;

    fn alphabet(&self, prefix: &[Ev]) -> Vec<Ev> {
        // after the bar is finished only the resets are of interest (the estimate is pos / elapsed then)
        if prefix.iter().any(|e| matches!(e, Ev::Finish | Ev::Abandon)) {
            return if matches!(prefix.last(), Some(Ev::Finish | Ev::Abandon)) && self.steady.is_none() { vec![Ev::ResetElapsed, Ev::ResetEta] } else { vec![] };
        }
        match self.steady {
            Some(r) => GAPS
                .iter()
                .filter(|&&g| (r as u128 * g as u128) % S as u128 == 0 && r as u128 * g as u128 / S as u128 >= 1)
                .map(|&g| Ev::Inc(g, (r as u128 * g as u128 / S as u128) as u64))
                // a bar that started out at a position may also be abandoned: the average reported for the
                // finished bar is bounded by the observed rate as well (the starting position is not progress)
                .chain(if (self.base_pos.is_some() || self.variant == 3) && !prefix.is_empty() { Some(Ev::Abandon) } else { None })
                .collect(),
            None => {
                let mut v = Vec::new();
                for g in GAPS {
                    for d in DELTAS {
                        v.push(Ev::Inc(g, d));
                    }
                }
                // a second update at the same instant: the estimator cannot sample it (no time has
                // passed), so the position runs ahead of what the estimator has seen
                for d in DELTAS {
                    v.push(Ev::Inc(0, d));
                }
                v.extend([Ev::ResetEta, Ev::Reset, Ev::ResetElapsed, Ev::Finish, Ev::Abandon]);
                // a backwards seek needs a position to go back from
                let mut pos = 0u64;
                for e in prefix {
                    match e {
                        Ev::Inc(_, d) => pos += d,
                        Ev::Reset => pos = 0,
                        Ev::Rewind | Ev::RewindDec | Ev::RewindSoon => pos /= 2,
                        _ => {}
                    }
                }
                v.push(Ev::ResetEtaSoon);
                if !matches!(prefix.last(), Some(Ev::SetSame)) {
                    v.push(Ev::SetSame);
                }
                if pos >= 2 {
                    v.push(Ev::Rewind);
                    v.push(Ev::RewindDec);
                    v.push(Ev::RewindSoon);
                }
                v
            }
        }
    }

    fn show(&self, op: &Ev) -> String {
        match op {
            Ev::Inc(g, d) => format!("+{}ns inc({})", g, d),
            o @ (Ev::ResetEtaSoon | Ev::RewindSoon) => format!("+1ms {:?}", o),
            Ev::SetSame => "+0ns SetSame".to_string(),
            o => format!("+1s {:?}", o),
        }
    }

    fn run(&self, hist: &[Ev], stats: &mut Stats) -> Verdict {
        let shown: Vec<String> = hist.iter().map(|o| self.show(o)).collect();
        let bad = |class: &str, detail: String| Verdict::Bad(Violation { class: class.into(), config: self.config(), history: shown.clone(), detail });
        clock::reset();
        let mut pos = 0u64;
        let r = catch(|| {
            let mut pb = ProgressBar::with_draw_target(if self.no_len { None } else { Some(LEN) }, ProgressDrawTarget::hidden());
            if let Some(secs) = self.with_elapsed {
                pb = pb.with_elapsed(Duration::from_secs(secs));
            }
            if let Some(b) = self.base_pos {
                pb = if self.variant == 2 { pb.wrap_iter(std::iter::empty::<u8>()).with_position(b).progress.clone() } else { pb.with_position(b) };
                pos = b;
            }
            let mut moved: Option<String> = None;
            let mp = indicatif::MultiProgress::with_draw_target(ProgressDrawTarget::hidden());
            for (n, ev) in hist.iter().enumerate() {
                if self.variant == 3 && n == 1 {
                    pb = mp.add(pb);
                }
                let before = if *ev == Ev::SetSame { Some((pb.per_sec().to_bits(), pb.eta())) } else { None };
                apply(&pb, ev, &mut pos, self.variant == 1);
                if let Some(b) = before {
                    let a = (pb.per_sec().to_bits(), pb.eta());
                    if a != b && moved.is_none() {
                        moved = Some(format!("per_sec/eta ({}, {:?}) before, ({}, {:?}) after set_position({pos}) at the same instant", f64::from_bits(b.0), b.1, f64::from_bits(a.0), a.1));
                    }
                }
            }
            let base = clock::now_ns();
            let q = query(&pb, base);
            (q, base, pb.position(), moved)
        });
        let (q, base, real_pos, moved) = match r {
            Err(p) => return bad(&format!("panic: {}", panic_class(&p)), p),
            Ok(x) => x,
        };
        if let Some(d) = moved {
            return bad("L5x: set_position to the current position changes the estimate (taken for a seek)", d);
        }
        let finished = hist.iter().any(|e| matches!(e, Ev::Finish | Ev::Abandon));
        // segments since the last reset-like event
        let k = hist.iter().rposition(|e| matches!(e, Ev::ResetEta | Ev::Reset | Ev::ResetElapsed | Ev::Rewind | Ev::RewindDec | Ev::ResetEtaSoon | Ev::RewindSoon));
        let after: &[Ev] = match k {
            Some(k) => &hist[k + 1..],
            None => hist,
        };
        let max_rate = after.iter().filter_map(|e| if let Ev::Inc(g, d) = e { Some(*d as f64 / (*g as f64 / 1e9)) } else { None }).fold(0.0f64, f64::max);
        let last_rate = after.iter().rev().find_map(|e| if let Ev::Inc(g, d) = e { Some(*d as f64 / (*g as f64 / 1e9)) } else { None });

        // L1 finite and non-negative; L6 eta/duration
        for (i, x) in q.iter().enumerate() {
            if !x.per_sec.is_finite() || x.per_sec < 0.0 {
                return bad("L1: per_sec not finite and non-negative", format!("per_sec {} at +{} ns", x.per_sec, QUERIES[i]));
            }
            if finished {
                if x.eta != Duration::ZERO || x.duration != Duration::ZERO {
                    return bad("L6: eta/duration not zero when finished", format!("eta {:?} duration {:?}", x.eta, x.duration));
                }
                continue;
            }
            if self.no_len {
                if x.eta != Duration::ZERO || x.duration != Duration::ZERO {
                    return bad("L6: eta/duration not zero although the length is unknown", format!("eta {:?} duration {:?}", x.eta, x.duration));
                }
                continue;
            }
            let remaining = LEN.saturating_sub(real_pos) as f64;
            let want = if x.per_sec == 0.0 { 0.0 } else { remaining / x.per_sec };
            let got = x.eta.as_secs_f64();
            let ok = if want > 1.8e19 { got > 1.8e19 } else { (got - want).abs() <= 2e-9 + 1e-9 * want };
            if !ok {
                return bad("L6: eta is not remaining steps divided by the reported rate", format!("eta {got} s, expected {want} s at +{} ns", QUERIES[i]));
            }
            if x.duration != x.elapsed.saturating_add(x.eta) {
                return bad("L6: duration is not elapsed + eta", format!("{:?} vs {:?} + {:?}", x.duration, x.elapsed, x.eta));
            }
        }
        // after abandon the position stays where it is: the average rate reported for the finished bar
        // is bounded by the largest rate observed as well (finish() moves the position to the length)
        if finished && matches!(hist.last(), Some(Ev::Abandon)) && k.is_none() {
            for (i, x) in q.iter().enumerate() {
                if x.per_sec > max_rate * (1.0 + 1e-9) && max_rate > 0.0 {
                    return bad("L3: per_sec of an abandoned bar exceeds the largest rate observed", format!("per_sec {} > max segment rate {} at +{} ns", x.per_sec, max_rate, QUERIES[i]));
                }
            }
        }
        if !finished {
            // L3 bounded by the largest rate observed since the last reset
            for (i, x) in q.iter().enumerate() {
                if x.per_sec > max_rate * (1.0 + 1e-9) {
                    let class = if matches!(k, Some(_)) && after.iter().all(|e| !matches!(e, Ev::Inc(..))) { "L5: rate is not zero right after a reset (earlier progress not forgotten)" } else { "L3: per_sec exceeds the largest rate observed since the last reset" };
                    return bad(class, format!("per_sec {} > max segment rate {} at +{} ns", x.per_sec, max_rate, QUERIES[i]));
                }
            }
            // L2 steady progress
            if let (Some(r), false) = (self.steady, hist.is_empty()) {
                if !rel_close(q[0].per_sec, r as f64, 1e-6) {
                    return bad("L2: steady progress is not reported at the true rate", format!("per_sec {} for steady {r}/s", q[0].per_sec));
                }
            }
            // L4 stall behaviour
            let vals: Vec<f64> = q.iter().map(|x| x.per_sec).collect();
            let mut rose_at = None;
            let mut decreased = false;
            let mut rise_after_decrease = false;
            for i in 1..vals.len() {
                if vals[i] > vals[i - 1] * (1.0 + 1e-12) + 1e-300 {
                    if rose_at.is_none() {
                        rose_at = Some(i);
                    }
                    if decreased {
                        rise_after_decrease = true;
                    }
                } else if vals[i] < vals[i - 1] {
                    decreased = true;
                }
            }
            if rise_after_decrease {
                return bad("L4b: stalled rate is not unimodal (rises again after having decreased)", format!("{:?}", vals));
            }
            if let Some(i) = rose_at {
                // documented double smoothing (reference recurrences): the reported rate rises at the
                // start of a stall iff the single-smoothed level is above the double-smoothed one
                let (mut s1, mut s2, mut prev_t, mut start_t, mut t) = (0.0f64, 0.0f64, 0.0f64, 0.0f64, 0.0f64);
                // steps of updates that arrived with no time elapsed are sampled with the next update
                let mut pending = 0.0f64;
                for e in hist {
                    match e {
                        Ev::SetSame => {}
                        Ev::Inc(0, d) => pending += *d as f64,
                        Ev::Inc(g, d) => {
                            t += *g as f64 / 1e9;
                            let dt = t - prev_t;
                            let w = 0.1f64.powf(dt / 15.0);
                            s1 = s1 * w + ((*d as f64 + pending) / dt) * (1.0 - w);
                            pending = 0.0;
                            let tw = 1.0 - 0.1f64.powf((t - start_t) / 15.0);
                            s2 = s2 * w + (s1 / tw) * (1.0 - w);
                            prev_t = t;
                        }
                        other => {
                            t += if matches!(other, Ev::ResetEtaSoon | Ev::RewindSoon) { 0.001 } else { 1.0 };
                            pending = 0.0;
                            s1 = 0.0;
                            s2 = 0.0;
                            prev_t = t;
                            start_t = t;
                        }
                    }
                }
                let _ = last_rate;
                let lagging = s1 > s2 * (1.0 + 1e-9);
                let class = if lagging { "L4a: reported rate rises during a stall (single-smoothed level above the double-smoothed level when the stall began)" } else { "L4a: reported rate rises during a stall although the double-smoothed level had caught up" };
                return bad(class, format!("per_sec at +{} ns = {}, at +{} ns = {}; all {:?}", QUERIES[i - 1], vals[i - 1], QUERIES[i], vals[i], vals));
            }
            if max_rate > 0.0 && vals[vals.len() - 1] > 1e-6 * max_rate {
                return bad("L4b: rate has not decayed 30 days into a stall", format!("{:?}", vals));
            }
        }
        // L5 forgetfulness: differential against a fresh bar given only what follows the reset
        if let (Some(k), false) = (k, finished) {
            let fresh = catch(|| {
                // replay up to and including the reset on a throw-away bar to find the reset instant and position
                clock::reset();
                let mut p = 0u64;
                let dummy = ProgressBar::with_draw_target(Some(LEN), ProgressDrawTarget::hidden());
                for ev in &hist[..=k] {
                    apply(&dummy, ev, &mut p, self.variant == 1);
                }
                let t_reset = clock::now_ns();
                drop(dummy);
                clock::set_ns(t_reset);
                let fb = ProgressBar::with_draw_target(if self.no_len { None } else { Some(LEN - p) }, ProgressDrawTarget::hidden());
                let mut fp = 0u64;
                for ev in &hist[k + 1..] {
                    apply(&fb, ev, &mut fp, self.variant == 1);
                }
                let b2 = clock::now_ns();
                (query(&fb, b2), b2)
            });
            match fresh {
                Err(p) => return Verdict::Machinery(format!("fresh-bar oracle panicked: {p}")),
                Ok((fq, b2)) => {
                    if b2 != base {
                        return Verdict::Machinery("fresh-bar oracle out of sync".into());
                    }
                    for (i, (a, b)) in q.iter().zip(fq.iter()).enumerate() {
                        if !rel_close(a.per_sec, b.per_sec, 1e-9) {
                            let kind = match hist[k] {
                                Ev::Reset => "reset()",
                                Ev::ResetEta => "reset_eta()",
                                Ev::ResetElapsed => "reset_elapsed()",
                                _ => "a backwards seek",
                            };
                            return bad(&format!("L5: progress before {kind} still influences the rate"), format!("per_sec {} vs fresh bar {} at +{} ns", a.per_sec, b.per_sec, QUERIES[i]));
                        }
                        if (a.eta.as_secs_f64() - b.eta.as_secs_f64()).abs() > 1e-6 * a.eta.as_secs_f64().max(1.0) {
                            return bad("L5: eta differs from a fresh bar given only the progress after the reset", format!("{:?} vs {:?}", a.eta, b.eta));
                        }
                    }
                    stats.bump("differential_fresh_bar_comparisons", 1);
                }
            }
        }
        let key: Vec<u64> = q.iter().map(|x| x.per_sec.to_bits() >> 20).collect();
        stats.outcomes.insert(hash_of(&key));
        Verdict::Ok { hash: hash_of(&(key, real_pos)), nontrivial: max_rate > 0.0 }
    }
}

fn configs(tier: Tier) -> Vec<(C09, usize)> {
    let (d, ds) = if tier == Tier::Quick { (5, 6) } else { (6, 8) };
    let mut v = vec![(C09 { base_pos: None, with_elapsed: None, steady: None, no_len: false, variant: 0 }, d), (C09 { base_pos: None, with_elapsed: None, steady: None, no_len: true, variant: 0 }, d - 1)];
    for r in [1u64, 1_000, 1_000_000, 1_000_000_000_000] {
        v.push((C09 { base_pos: None, with_elapsed: None, steady: Some(r), no_len: false, variant: 0 }, ds));
    }
    // bars built with an elapsed time restored from an earlier run
    v.push((C09 { base_pos: None, with_elapsed: Some(120), steady: Some(1_000), no_len: false, variant: 0 }, ds));
    v.push((C09 { base_pos: None, with_elapsed: Some(5), steady: None, no_len: false, variant: 0 }, d - 1));
    // a resumed transfer: the bar starts at a position beyond 2^53 (u64 -> f64 conversions are no longer exact)
    v.push((C09 { base_pos: Some(1 << 59), with_elapsed: None, steady: Some(1_000), no_len: false, variant: 0 }, ds));
    v.push((C09 { base_pos: Some((1 << 59) + 1), with_elapsed: None, steady: Some(1), no_len: false, variant: 0 }, ds - 1));
    // updates that carry no progress between the ones that do
    v.push((C09 { base_pos: None, with_elapsed: None, steady: Some(1), no_len: false, variant: 1 }, ds));
    v.push((C09 { base_pos: None, with_elapsed: None, steady: Some(1_000_000), no_len: false, variant: 1 }, ds - 1));
    // a bar that joins a MultiProgress while it is running
    v.push((C09 { base_pos: None, with_elapsed: None, steady: Some(1_000), no_len: false, variant: 3 }, ds - 1));
    // the starting position of a wrapped iterator
    v.push((C09 { base_pos: Some(500_000_000), with_elapsed: None, steady: Some(1_000), no_len: false, variant: 2 }, ds - 1));
    v.push((C09 { base_pos: Some(1 << 40), with_elapsed: None, steady: Some(1), no_len: false, variant: 2 }, ds - 1));
    v
}

pub fn run(tier: Tier, shard: Shard, stats: &mut Stats) {
    for (cfg, depth) in configs(tier) {
        Dfs::new(&cfg, depth, shard, 1).explore(stats);
    }
}

pub fn meta(tier: Tier) -> Meta {
    let (d, ds) = if tier == Tier::Quick { (5, 6) } else { (6, 8) };
    Meta {
        level: "model_checking",
        rule: format!("virtual-time histories on a hidden bar of length 1e18: every sequence of <= {d} events from (gap in {{0,1 ms,7 ms,1 s,15 s,1 h,1 d}}) x inc({{1,1e3,1e9}}) (gap 0 = an update the estimator cannot sample) plus reset_eta/reset/reset_elapsed/backwards seek (set_position and dec)/finish/abandon, and every steady-rate gap sequence of <= {ds} updates for rates 1,1e3,1e6,1e12 per second (also on bars built with_elapsed); the estimate is read before every event, and reset_eta / a backwards seek also come 1 ms after the previous event; after every history per_sec/eta/duration/elapsed are read at 8 instants from +1 ns to +30 d with the clock frozen; laws L1-L6 incl. a differential fresh-bar oracle for forgetfulness; a state is the vector of reported rates; non-trivial = at least one progress sample since the last reset"),
        assumptions: vec!["virtual clock by clock_gettime interposition; queries move the clock forward and back without touching the bar".into(), "L4 split: a rise during a stall that begins with the estimate below the newest sample's rate is the documented double-smoothing behaviour (known finding); everything else is a violation".into()],
        bounds: json!({"depth_transient": d, "depth_steady": ds, "query_offsets_ns": QUERIES}),
        exhaustive: true,
    }
}

pub fn replay(v: &Value) -> i32 {
    let hist: Vec<String> = v["history"].as_array().map(|a| a.iter().map(|s| s.as_str().unwrap_or("").to_string()).collect()).unwrap_or_default();
    for (cfg, _) in configs(Tier::Thorough) {
        if cfg.config() == v["config"].as_str().unwrap_or("") {
            return crate::replay_hist(&cfg, &hist, "C09");
        }
    }
    2
}
