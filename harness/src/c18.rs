//! C18 — terminal I/O failures never panic, poison or corrupt logical state (fault enumeration).

use crate::barops::{getters, style, Getters};
use crate::report::{hash_of, Dfs, Hist, Shard, Stats, Verdict, Violation};
use crate::term::{Fault, Spy};
use crate::util::{catch, panic_class};
use crate::{clock, Meta, Tier};
use indicatif::{MultiProgress, ProgressBar, ProgressDrawTarget};
use serde_json::{json, Value};

#[derive(Clone, Debug, PartialEq)]
pub enum Op {
    Tick,
    Inc,
    Msg,
    Println,
    Suspend,
    TabWidth,
    Style,
    Reset,
    ForceDraw,
    Finish,
    FinishClear,
    Abandon,
    /// finish_using_style() on a bar whose finish behaviour was never configured (the default)
    FinishDefault,
    DropA,
    TickB,
    MpPrintln,
    MpClear,
    MpSuspend,
    MpRemoveA,
    MpAdd,
    MpSetTarget,
    SetTarget,
    /// three ticks in a row
    Tick3,
    MpInsertAfterA,
    MpInsertBeforeA,
    FinishClearB,
    DropB,
    /// MultiProgress::println of a message with more lines than the terminal has rows
    MpPrintlnTall,
}

pub struct C18 {
    pub multi: bool,
    /// 0: two undrawn bars; 1: bottom alignment, three drawn bars, a finished visibly, b finished and
    /// cleared but not redrawn since (padding pending); 2: three drawn bars, the middle one dropped
    /// (a deferred zombie); 3: bottom alignment, three drawn bars
    pub root: u8,
}

struct World {
    spy: Spy,
    mp: Option<MultiProgress>,
    a: Option<ProgressBar>,
    b: Option<ProgressBar>,
    extra: Vec<ProgressBar>,
}

#[derive(Clone, Debug, PartialEq)]
struct Obs {
    a: Option<Getters>,
    b: Option<Getters>,
    /// for io::Result-returning calls: Some(is_err)
    result: Option<bool>,
    /// the operation made at least one terminal call / a fault was injected during it
    drew: bool,
    injected: bool,
}

impl C18 {
    fn config(&self) -> String {
        match (self.multi, self.root) {
            (false, _) => "single bar".into(),
            (true, 0) => "two-bar MultiProgress".into(),
            (true, 1) => "bottom-aligned MultiProgress: a finished, b finished-and-cleared, c live".into(),
            (true, 2) => "three-bar MultiProgress whose middle bar was dropped (deferred zombie)".into(),
            (true, 4) => "MultiProgress that was hidden while a member printed a line, then given the terminal".into(),
            (true, 5) => "three-bar MultiProgress with set_move_cursor(true)".into(),
            (true, _) => "bottom-aligned three-bar MultiProgress".into(),
        }
    }

    fn build(&self, fault: Fault) -> World {
        clock::reset();
        let spy = Spy::new(30, 20, false);
        spy.st().fault = fault;
        let mk = |t: ProgressDrawTarget| ProgressBar::with_draw_target(Some(5), t).with_style(style(2));
        if self.multi {
            let mp = if self.root == 4 { MultiProgress::with_draw_target(ProgressDrawTarget::hidden()) } else { MultiProgress::with_draw_target(ProgressDrawTarget::term_like(spy.boxed())) };
            if self.root == 1 || self.root == 3 {
                mp.set_alignment(indicatif::MultiProgressAlignment::Bottom);
            }
            if self.root == 5 {
                mp.set_move_cursor(true);
            }
            let a = mp.add(mk(ProgressDrawTarget::hidden()).with_prefix("a"));
            let b = mp.add(mk(ProgressDrawTarget::hidden()).with_prefix("b"));
            let mut w = World { spy, mp: Some(mp), a: Some(a), b: Some(b), extra: vec![] };
            if self.root == 4 {
                // a line printed through a member while the MultiProgress is hidden stays pending
                w.spy.st().fault = Fault::None;
                w.a.as_ref().unwrap().println("pending");
                w.mp.as_ref().unwrap().set_draw_target(ProgressDrawTarget::term_like(w.spy.boxed()));
                let mut st = w.spy.st();
                st.fallible_calls = 0;
                st.fault = fault;
            } else if self.root != 0 {
                // the root history runs fault-free; fault indices count from the end of it
                w.spy.st().fault = Fault::None;
                let c = w.mp.as_ref().unwrap().add(mk(ProgressDrawTarget::hidden()).with_prefix("c"));
                w.a.as_ref().unwrap().tick();
                w.b.as_ref().unwrap().tick();
                c.tick();
                match self.root {
                    1 => {
                        w.a.as_ref().unwrap().finish();
                        w.b.as_ref().unwrap().finish_and_clear();
                        w.extra.push(c);
                    }
                    2 => {
                        // the handle called "b" by the operations is the third bar from here on
                        w.b = Some(c);
                    }
                    _ => w.extra.push(c),
                }
                let mut st = w.spy.st();
                st.fallible_calls = 0;
                st.fault = fault;
            }
            w
        } else {
            let a = mk(ProgressDrawTarget::term_like(spy.boxed())).with_prefix("a");
            World { spy, mp: None, a: Some(a), b: None, extra: vec![] }
        }
    }

    /// Runs the history; returns per-op observations or the panic (op index, message).
    fn execute(&self, hist: &[Op], fault: Fault) -> (Vec<Obs>, Option<(usize, String)>, Option<String>, usize, u64) {
        let mut w = self.build(fault);
        let mut obs = Vec::new();
        let mut panic = None;
        for (i, op) in hist.iter().enumerate() {
            clock::advance_ms(5);
            let inj0 = w.spy.st().faults_injected;
            let calls0 = w.spy.st().fallible_calls;
            let r = catch(|| {
                let mut result: Option<bool> = None;
                let a = w.a.as_ref();
                match op {
                    Op::Tick => a.map(|a| a.tick()).unwrap_or(()),
                    Op::Inc => a.map(|a| a.inc(1)).unwrap_or(()),
                    Op::Msg => a.map(|a| a.set_message("m\tn")).unwrap_or(()),
                    Op::Println => a.map(|a| a.println("log")).unwrap_or(()),
                    Op::Suspend => a.map(|a| a.suspend(|| ())).unwrap_or(()),
                    Op::TabWidth => a.map(|a| a.set_tab_width(4)).unwrap_or(()),
                    Op::Style => a.map(|a| a.set_style(style(0))).unwrap_or(()),
                    Op::Reset => a.map(|a| a.reset()).unwrap_or(()),
                    Op::ForceDraw => a.map(|a| a.force_draw()).unwrap_or(()),
                    Op::Finish => a.map(|a| a.finish()).unwrap_or(()),
                    Op::FinishDefault => a.map(|a| a.finish_using_style()).unwrap_or(()),
                    Op::FinishClear => a.map(|a| a.finish_and_clear()).unwrap_or(()),
                    Op::Abandon => a.map(|a| a.abandon_with_message("ab")).unwrap_or(()),
                    Op::DropA => w.a = None,
                    Op::TickB => w.b.as_ref().map(|b| b.tick()).unwrap_or(()),
                    Op::FinishClearB => w.b.as_ref().map(|b| b.finish_and_clear()).unwrap_or(()),
                    Op::DropB => w.b = None,
                    Op::MpPrintln => result = Some(w.mp.as_ref().unwrap().println("L").is_err()),
                    Op::MpPrintlnTall => result = Some(w.mp.as_ref().unwrap().println((0..25).map(|i| format!("t{i}")).collect::<Vec<_>>().join("\n")).is_err()),
                    Op::MpClear => result = Some(w.mp.as_ref().unwrap().clear().is_err()),
                    Op::MpSuspend => w.mp.as_ref().unwrap().suspend(|| ()),
                    Op::MpRemoveA => {
                        if let Some(a) = w.a.as_ref() {
                            w.mp.as_ref().unwrap().remove(a)
                        }
                    }
                    Op::MpAdd => {
                        let nb = w.mp.as_ref().unwrap().add(ProgressBar::with_draw_target(Some(5), ProgressDrawTarget::hidden()).with_style(style(2)).with_prefix("c"));
                        nb.tick();
                        w.extra.push(nb);
                    }
                    Op::Tick3 => {
                        if let Some(a) = a {
                            a.tick();
                            a.tick();
                            a.tick();
                        }
                    }
                    Op::MpInsertAfterA | Op::MpInsertBeforeA => {
                        if let Some(a) = w.a.as_ref() {
                            let nb = ProgressBar::with_draw_target(Some(5), ProgressDrawTarget::hidden()).with_style(style(2)).with_prefix("d");
                            let nb = if *op == Op::MpInsertAfterA { w.mp.as_ref().unwrap().insert_after(a, nb) } else { w.mp.as_ref().unwrap().insert_before(a, nb) };
                            nb.tick();
                            w.extra.push(nb);
                        }
                    }
                    Op::MpSetTarget => w.mp.as_ref().unwrap().set_draw_target(ProgressDrawTarget::term_like(w.spy.boxed())),
                    Op::SetTarget => a.map(|a| a.set_draw_target(ProgressDrawTarget::term_like(w.spy.boxed()))).unwrap_or(()),
                }
                result
            });
            match r {
                Err(p) => {
                    panic = Some((i, p));
                    break;
                }
                Ok(result) => {
                    let injected = w.spy.st().faults_injected > inj0;
                    let g = catch(|| (w.a.as_ref().map(getters), w.b.as_ref().map(getters)));
                    match g {
                        Err(p) => {
                            panic = Some((i, format!("getter after the call: {p}")));
                            break;
                        }
                        Ok((ga, gb)) => obs.push(Obs { a: ga, b: gb, result: result.map(|e| e == injected), drew: w.spy.st().fallible_calls > calls0, injected }),
                    }
                }
            }
        }
        // epilogue: everything must still work
        let mut epilogue = None;
        let spy = w.spy.clone();
        // after a panic the world is leaked: dropping poisoned objects while unwinding would abort
        let w = std::mem::ManuallyDrop::new(w);
        let e = catch(move || {
            let w = w;
            if let Some(a) = w.a.as_ref() {
                a.tick();
                a.inc(1);
                let _ = a.position();
                let _ = a.message();
                a.set_message("e");
            }
            if let Some(b) = w.b.as_ref() {
                b.tick();
                let _ = b.is_finished();
            }
            if let Some(mp) = w.mp.as_ref() {
                let _ = mp.println("epilogue");
                let _ = mp.clear();
            }
            w
        });
        match e {
            Err(p) => epilogue = Some(p),
            Ok(w) => {
                // drop every handle on its own: a destructor that panics must not take the others with it
                let World { mp, a, b, extra, .. } = std::mem::ManuallyDrop::into_inner(w);
                let parts: Vec<(&str, Box<dyn FnOnce()>)> = vec![("bar a", Box::new(move || drop(a))), ("bar b", Box::new(move || drop(b))), ("the added bars", Box::new(move || drop(extra))), ("the MultiProgress", Box::new(move || drop(mp)))];
                for (name, part) in parts {
                    if epilogue.is_some() {
                        std::mem::forget(part);
                    } else if let Err(p) = catch(part) {
                        epilogue = Some(format!("dropping {name}: {p}"));
                    }
                }
            }
        }
        let st = spy.st();
        (obs, panic, epilogue, st.fallible_calls, st.faults_injected)
    }
}

impl Hist for C18 {
    type Op = Op;

    fn alphabet(&self, prefix: &[Op]) -> Vec<Op> {
        let mut v = vec![Op::Tick, Op::Inc, Op::Msg, Op::Println, Op::Suspend, Op::TabWidth, Op::Style, Op::Reset, Op::ForceDraw, Op::Finish, Op::FinishClear, Op::Abandon];
        if !prefix.contains(&Op::DropA) {
            v.push(Op::DropA);
        }
        v.push(Op::Tick3);
        if self.multi {
            v.extend([Op::TickB, Op::MpPrintln, Op::MpClear, Op::MpSuspend, Op::MpRemoveA, Op::MpAdd, Op::MpSetTarget, Op::FinishClearB, Op::MpPrintlnTall]);
            if !prefix.contains(&Op::DropB) {
                v.push(Op::DropB);
            }
            // a member bar given a terminal target of its own (which unlinks it from the MultiProgress)
            if !prefix.contains(&Op::SetTarget) {
                v.push(Op::SetTarget);
            }
            // inserting relative to a bar that is no longer a member is a caller error
            if !prefix.contains(&Op::MpRemoveA) && !prefix.contains(&Op::DropA) && !prefix.contains(&Op::SetTarget) {
                v.extend([Op::MpInsertAfterA, Op::MpInsertBeforeA]);
            }
        } else {
            v.push(Op::SetTarget);
            v.push(Op::FinishDefault);
        }
        v
    }

    fn run(&self, hist: &[Op], stats: &mut Stats) -> Verdict {
        let shown: Vec<String> = hist.iter().map(|o| format!("{:?}", o)).collect();
        let (obs0, p0, e0, n, _) = self.execute(hist, Fault::None);
        let mkbad = |class: String, fault: String, detail: String| {
            let mut h = shown.clone();
            h.push(fault);
            Verdict::Bad(Violation { class, config: self.config(), history: h, detail })
        };
        if let Some((i, p)) = p0 {
            return mkbad(format!("panic without any fault: {}", panic_class(&p)), "no fault".into(), format!("op #{i}: {p}"));
        }
        if let Some(p) = e0 {
            return mkbad(format!("panic without any fault (epilogue): {}", panic_class(&p)), "no fault".into(), p);
        }
        if obs0.iter().any(|o| o.result == Some(false)) {
            return mkbad("result: io::Result-returning call reports an error although no terminal call failed".into(), "no fault".into(), format!("{:?}", obs0));
        }
        let mut faults_run = 0u64;
        for k in 0..n {
            for (fault, kind) in [(Fault::Once(k), 0u8), (Fault::From(k), 0), (Fault::Once(k), 1), (Fault::Once(k), 2), (Fault::Once(k), 3)] {
                crate::term::set_fault_kind(kind);
                let fname = format!("fault {:?} kind {}", fault, ["Other", "Interrupted", "WouldBlock", "BrokenPipe"][kind as usize]);
                crate::util::watch("C18", "hang: a call never returns after a terminal fault (lock taken twice / deadlock)", &self.config(), {
                    let mut h = shown.clone();
                    h.push(fname.clone());
                    h
                }, 10.0);
                let (obs, p, e, _, injected) = self.execute(hist, fault);
                crate::util::unwatch();
                faults_run += 1;
                if let Some((i, p)) = p {
                    let class = if p.contains("PoisonError") { format!("poisoned: a later call panics on a poisoned lock: {}", panic_class(&p)) } else { format!("panic: a terminal fault makes a call panic: {}", panic_class(&p)) };
                    return mkbad(class, fname, format!("op #{i} {:?}: {p}", hist[i]));
                }
                if let Some(p) = e {
                    let class = if p.contains("PoisonError") { format!("poisoned: epilogue panics on a poisoned lock: {}", panic_class(&p)) } else { format!("panic: epilogue panics after a terminal fault: {}", panic_class(&p)) };
                    return mkbad(class, fname, p);
                }
                for (i, (o, o0)) in obs.iter().zip(obs0.iter()).enumerate() {
                    if o.result == Some(false) {
                        return mkbad("result: an io::Result-returning call does not report exactly the failures that happened inside it".into(), fname, format!("op #{i} {:?}", hist[i]));
                    }
                    if o.a != o0.a || o.b != o0.b {
                        return mkbad("state: getters differ from the fault-free run".into(), fname, format!("op #{i} {:?}: {:?}/{:?} vs fault-free {:?}/{:?}", hist[i], o.a, o.b, o0.a, o0.b));
                    }
                }
                // "later calls keep working": after a single failed terminal call, an operation that
                // paints in the fault-free run still reaches the terminal
                if matches!(fault, Fault::Once(_)) {
                    if let Some(fi) = obs.iter().position(|o| o.injected) {
                        for i in fi + 1..obs.len().min(obs0.len()) {
                            if obs0[i].drew && !obs[i].drew {
                                return mkbad("dead: after one failed terminal call a later operation that paints in the fault-free run makes no terminal call at all".into(), fname, format!("op #{i} {:?} (the fault was injected during op #{fi} {:?})", hist[i], hist[fi]));
                            }
                        }
                    }
                }
                if injected > 0 {
                    stats.bump("faulty_executions_with_an_injected_fault", 1);
                }
            }
        }
        crate::term::set_fault_kind(0);
        stats.bump("fault_points", n as u64);
        stats.evaluations += faults_run; // every faulty execution is a complete real execution
        stats.outcomes.insert(hash_of(&(n, &obs0.last().map(|o| o.a.clone()))));
        Verdict::Ok { hash: hash_of(&(&shown, n)), nontrivial: n > 0 }
    }
}

fn configs(tier: Tier) -> Vec<(C18, usize)> {
    let d = if tier == Tier::Quick { 3 } else { 4 };
    let d2 = if tier == Tier::Quick { 2 } else { 3 };
    vec![(C18 { multi: false, root: 0 }, d + 1), (C18 { multi: true, root: 0 }, d), (C18 { multi: true, root: 1 }, d2), (C18 { multi: true, root: 2 }, d2), (C18 { multi: true, root: 3 }, d2), (C18 { multi: true, root: 4 }, d2), (C18 { multi: true, root: 5 }, d2)]
}

fn long_case(multi: bool, hz: Option<u8>, k: usize, op: u8, n: usize, hist: &[String]) -> Option<(String, String)> {
    crate::util::watch("C18", "hang: a call never returns after a terminal fault (lock taken twice / deadlock)", "long persistent failure", hist.to_vec(), 20.0);
    clock::reset();
    let spy = Spy::new(30, 20, false);
    let target = |spy: &Spy| match hz {
        None => ProgressDrawTarget::term_like(spy.boxed()),
        Some(h) => ProgressDrawTarget::term_like_with_hz(spy.boxed(), h),
    };
    let mk = |t: ProgressDrawTarget| ProgressBar::with_draw_target(Some(5), t).with_style(style(2));
    let (mp, a, b) = if multi {
        let mp = MultiProgress::with_draw_target(target(&spy));
        let a = mp.add(mk(ProgressDrawTarget::hidden()).with_prefix("a"));
        let b = mp.add(mk(ProgressDrawTarget::hidden()).with_prefix("b"));
        (Some(mp), a, Some(b))
    } else {
        (None, mk(target(&spy)).with_prefix("a"), None)
    };
    a.tick();
    spy.st().fallible_calls = 0;
    spy.st().fault = Fault::From(k);
    let mut failed_at = None;
    for i in 0..n {
        clock::advance_ms(1);
        let r = catch(|| match op {
            0 => a.println("log"),
            1 => a.force_draw(),
            2 => a.tick(),
            3 => a.suspend(|| ()),
            4 => {
                let _ = mp.as_ref().unwrap().println("L");
            }
            _ => {
                let _ = mp.as_ref().unwrap().clear();
            }
        });
        if let Err(p) = r {
            failed_at = Some((i, p));
            break;
        }
    }
    let world = std::mem::ManuallyDrop::new((mp, a, b));
    let verdict = match failed_at {
        Some((i, p)) => Some((format!("panic: a terminal fault makes a call panic: {}", panic_class(&p)), format!("repetition #{i}: {p}"))),
        None => {
            let e = catch(move || {
                let w = world;
                w.1.inc(1);
                let _ = (w.1.position(), w.1.message());
                if let Some(b) = w.2.as_ref() {
                    b.tick();
                }
                if let Some(mp) = w.0.as_ref() {
                    let _ = mp.println("epilogue");
                }
                let (mp, a, b) = std::mem::ManuallyDrop::into_inner(w);
                drop(a);
                drop(b);
                drop(mp);
            });
            e.err().map(|p| (if p.contains("PoisonError") { format!("poisoned: epilogue panics on a poisoned lock: {}", panic_class(&p)) } else { format!("panic: epilogue panics after a terminal fault: {}", panic_class(&p)) }, p))
        }
    };
    crate::util::unwatch();
    verdict
}

/// A terminal that stays broken for a long time: one operation repeated n times on a rate-limited
/// target while every terminal call from the k-th on fails, for every n up to the bound (the run is
/// one history; every prefix of it is a run that ended earlier).
fn long_faults(tier: Tier, shard: Shard, stats: &mut Stats) {
    let n = if tier == Tier::Quick { 300 } else { 1500 };
    let mut case = 0u64;
    for multi in [false, true] {
        for hz in [None, Some(20u8), Some(255)] {
            for k in [0usize, 1, 4, 9] {
                for op in 0..6u8 {
                    case += 1;
                    if !shard.owns(case) || (op >= 4 && !multi) {
                        continue;
                    }
                    stats.evaluations += n as u64;
                    stats.transitions += n as u64;
                    let names = ["println", "force_draw", "tick", "suspend", "mp.println", "mp.clear"];
                    let hist = vec![format!("{} on a target with refresh rate {:?}", if multi { "two-bar MultiProgress" } else { "single bar" }, hz), format!("{} x {n}, 1 ms apart", names[op as usize]), format!("fault From({k}) kind Other")];
                    let verdict = long_case(multi, hz, k, op, n, &hist);
                    match verdict {
                        Some((class, detail)) => stats.violation(Violation { class, config: "long persistent failure".into(), history: hist, detail }),
                        None => stats.state(hash_of(&("long", multi, hz, k, op)), true),
                    }
                }
            }
        }
    }
}

pub fn run(tier: Tier, shard: Shard, stats: &mut Stats) {
    for (cfg, depth) in configs(tier) {
        Dfs::new(&cfg, depth, shard, 1).explore(stats);
    }
    long_faults(tier, shard, stats);
}

pub fn meta(tier: Tier) -> Meta {
    let d = if tier == Tier::Quick { 3 } else { 4 };
    let d2 = if tier == Tier::Quick { 2 } else { 3 };
    Meta {
        level: "fault_enumeration",
        rule: format!("every history of <= {} operations on a single bar (14 operations) and <= {d} on a two-bar MultiProgress (24 operations incl. println/clear/suspend/remove/add/insert/set_draw_target and finish/drop of the sibling), plus histories of <= {d2} operations from four further MultiProgress roots (bottom alignment with padding pending, a deferred zombie in the middle, bottom alignment with three live bars, a line printed through a member while the MultiProgress was still hidden), is first run fault-free to count its N fallible terminal calls; then it is re-run for every k < N with the k-th call failing once, and with the k-th and all later calls failing; oracle: no call unwinds, io::Result-returning calls report exactly the injected failures, getters equal the fault-free run after every operation, an operation that paints in the fault-free run still reaches the terminal after a single earlier failure, and a fixed epilogue (tick, inc, getters, sibling tick, mp.println, mp.clear, drop all) completes; plus long persistent failures: println / force_draw / tick / suspend / mp.println / mp.clear repeated 300 (1500) times on unlimited, 20 Hz and 255 Hz targets while every terminal call from the k-th on fails (k in 0,1,4,9); distinct = (history, N); non-trivial = N > 0", d + 1),
        assumptions: vec!["a failing terminal call has no effect on the terminal and returns io::ErrorKind::Other".into(), "one fault episode per execution (once, or from then on)".into()],
        bounds: json!({"depth_single": d + 1, "depth_multi": d, "depth_multi_other_roots": d2}),
        exhaustive: true,
    }
}

pub fn replay(v: &Value) -> i32 {
    if v["config"] == "long persistent failure" {
        let h: Vec<String> = v["history"].as_array().map(|a| a.iter().map(|s| s.as_str().unwrap_or("").to_string()).collect()).unwrap_or_default();
        let multi = h[0].starts_with("two-bar");
        let hz = if h[0].contains("Some(20)") { Some(20u8) } else if h[0].contains("Some(255)") { Some(255) } else { None };
        let names = ["println", "force_draw", "tick", "suspend", "mp.println", "mp.clear"];
        let op = names.iter().position(|n| h[1].starts_with(&format!("{n} x"))).unwrap_or(0) as u8;
        let n: usize = h[1].split(" x ").nth(1).and_then(|r| r.split(',').next()).and_then(|x| x.trim().parse().ok()).unwrap_or(300);
        let k: usize = h[2].split("From(").nth(1).and_then(|r| r.split(')').next()).and_then(|x| x.parse().ok()).unwrap_or(0);
        let (r1, r2) = (long_case(multi, hz, k, op, n, &h), long_case(multi, hz, k, op, n, &h));
        if r1 != r2 {
            println!("MACHINERY-ERROR: replay is not deterministic");
            return 2;
        }
        return match r1 {
            Some((class, detail)) => {
                println!("VIOLATION class={class} detail={detail}");
                println!("VIOLATION property=C18 replay=(this file)");
                1
            }
            None => {
                println!("ok: {n} repetitions and the epilogue completed");
                0
            }
        };
    }
    let mut hist: Vec<String> = v["history"].as_array().map(|a| a.iter().map(|s| s.as_str().unwrap_or("").to_string()).collect()).unwrap_or_default();
    hist.pop(); // the fault descriptor
    for (cfg, _) in configs(Tier::Thorough) {
        if cfg.config() == v["config"].as_str().unwrap_or("") {
            return crate::replay_hist(&cfg, &hist, "C18");
        }
    }
    2
}
