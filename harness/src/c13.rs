//! C13 — progress-bar geometry (ENUM).

use crate::render::{bar_on, frame_lines, LineCatcher};
use crate::report::{hash_of, Shard, Stats, Violation};
use crate::util::{catch, panic_class};
use crate::{Meta, Tier};
use indicatif::ProgressStyle;
use serde_json::{json, Value};

fn charset(k: usize, c: usize) -> Vec<char> {
    // first = filled, last = background, in between fine-grained partial cells
    let narrow = ['#', '1', '2', '3', '4', '5', '6', '7', '8', '-'];
    let wide = ['＃', '１', '２', '３', '４', '５', '６', '７', '８', '－'];
    let src = if c == 1 { narrow } else { wide };
    let mut v = vec![src[0]];
    v.extend_from_slice(&src[1..k - 1]);
    v.push(src[9]);
    v
}

fn pairs(tier: Tier, big_n: bool) -> Vec<(u64, u64)> {
    let mut v = Vec::new();
    let small: &[u64] = if big_n { &[0, 1, 3, 7] } else if tier == Tier::Quick { &[0, 1, 2, 3, 5, 7, 10, 16, 100] } else { &[0, 1, 2, 3, 5, 7, 10, 16, 33, 100, 1000] };
    for &len in small {
        for pos in 0..=len + 1 {
            v.push((pos, len));
        }
    }
    for len in [(1u64 << 24) - 1, 1 << 24, (1 << 24) + 1, 1 << 32, u64::MAX] {
        for pos in [0, 1, len / 3, len / 2, len - 2, len - 1, len, u64::MAX] {
            v.push((pos, len));
        }
    }
    v
}

fn judge(line: &str, set: &[char], n: usize, c: usize, pos: u64, len: u64) -> Result<(usize, bool), (String, String)> {
    let cells_want = n / c;
    // a field of N columns holds floor(N/c) cells and is padded with N mod c spaces
    let padding = n - cells_want * c;
    let Some(line) = line.strip_suffix(&" ".repeat(padding)) else {
        return Err(("cells: field is not N columns wide".into(), format!("{:?}", line)));
    };
    let chars: Vec<char> = line.chars().collect();
    for ch in &chars {
        if !set.contains(ch) {
            return Err(("cells: a cell is not one of the configured progress characters".into(), format!("{:?} in {:?}", ch, line)));
        }
    }
    if chars.len() != cells_want {
        return Err(("cells: bar does not occupy floor(N/c) cells".into(), format!("{} cells, expected {}", chars.len(), cells_want)));
    }
    let first = set[0];
    let last = *set.last().unwrap();
    let filled = chars.iter().take_while(|&&ch| ch == first).count();
    let mut i = filled;
    let mut partial = false;
    if i < chars.len() && chars[i] != last {
        partial = true;
        i += 1;
    } else if i < chars.len() && set.len() == 2 {
        // with two characters the partial cell is drawn with the background character
    }
    if chars[i..].iter().any(|&ch| ch != last) {
        return Err(("layout: not filled* partial? background*".into(), format!("{:?}", line)));
    }
    // with <= 3 clusters the partial cell may coincide with the background glyph (k=2) — count it from the law
    let cells = cells_want as u128;
    let (lo, hi) = if len == 0 || pos >= len {
        (cells, cells)
    } else {
        let x_num = pos as u128 * cells; // x = x_num / len
        // the completed fraction is an f32: relative tolerance 2^-21 around the exact quotient
        let lo = (x_num * ((1u128 << 21) - 1)) / ((len as u128) << 21);
        let hi = ((x_num * ((1u128 << 21) + 1)) / ((len as u128) << 21)).min(cells);
        (lo, hi)
    };
    let f = filled as u128;
    if f < lo || f > hi {
        return Err(("filled: not floor(fraction*cells)".into(), format!("filled {filled} of {cells_want}, exact {}..={} for pos {pos} len {len}", lo, hi)));
    }
    if pos == 0 && len != 0 && filled != 0 {
        return Err(("filled: non-zero at position 0".into(), format!("{filled}")));
    }
    if (len == 0 || pos >= len) && filled != cells_want {
        return Err(("filled: not full although position >= length".into(), format!("{filled} of {cells_want}")));
    }
    if len != 0 && pos < len && len <= (1 << 24) && filled == cells_want && cells_want > 0 {
        return Err(("filled: full although position < length (length <= 2^24)".into(), format!("pos {pos} len {len} cells {cells_want}")));
    }
    // partial cell exactly when neither empty nor full
    let neither = len != 0 && pos > 0 && filled < cells_want;
    if set.len() >= 3 && partial != neither {
        // an empty or a full bar must not show a partial cell; a bar in between must
        // (with k>=4 the partial glyph for a zero fractional part may be the last fine-grained one, still != background)
        return Err(("partial: partial cell present iff the bar is neither empty nor full".into(), format!("partial={partial} pos {pos} len {len} filled {filled}/{cells_want} line {:?}", line)));
    }
    Ok((filled, partial))
}

pub fn run(tier: Tier, shard: Shard, stats: &mut Stats) {
    let catcher = LineCatcher::new(200);
    let mut ns: Vec<usize> = (0..=64).collect();
    ns.extend([100, 255, 1000, 65535]);
    let mut case = 0u64;
    for &n in &ns {
        for c in [1usize, 2] {
            for k in 2..=10usize {
                case += 1;
                if !shard.owns(case) {
                    continue;
                }
                if n > 100 && !(k == 2 || k == 3 || k == 10) {
                    continue;
                }
                let set = charset(k, c);
                let set_s: String = set.iter().collect();
                let tpl = format!("|{{bar:{n}}}|");
                // the order in which the style is put together must not matter: template first,
                // progress characters first, or the template replaced on the style of a live bar
                // (orders 3..=5: an alignment flag in the placeholder, which has no bearing on the cells of a bar)
                // (order 6, N = 20 only: no width in the placeholder, which means 20 columns)
                for order in 0..if n <= 12 { 6 } else if n == 20 { 7 } else { 1 } {
                let order_name = ["with_template, progress_chars", "progress_chars, template", "bar.style().template(..) installed with set_style", "with_template, progress_chars", "with_template, progress_chars", "with_template, progress_chars", "with_template, progress_chars"][order];
                let tpl = match order {
                    3 => format!("|{{bar:>{n}}}|"),
                    4 => format!("|{{bar:^{n}}}|"),
                    5 => format!("|{{bar:<{n}}}|"),
                    6 => "|{bar}|".to_string(),
                    _ => tpl.clone(),
                };
                let style = match catch(|| match order {
                    1 => ProgressStyle::default_bar().progress_chars(&set_s).template(&tpl).unwrap(),
                    _ => ProgressStyle::with_template(&tpl).unwrap().progress_chars(&set_s),
                }) {
                    Ok(s) => s,
                    Err(p) => {
                        stats.violation(Violation { class: format!("panic building style: {}", panic_class(&p)), config: "bar".into(), history: vec![tpl.clone(), set_s.clone()], detail: p });
                        continue;
                    }
                };
                let pb = bar_on(&catcher, Some(1), style);
                if order == 2 {
                    pb.tick();
                    if let Err(p) = catch(|| pb.set_style(pb.style().template(&tpl).unwrap())) {
                        stats.violation(Violation { class: format!("panic building style: {}", panic_class(&p)), config: "bar".into(), history: vec![tpl.clone(), set_s.clone(), order_name.into()], detail: p });
                        continue;
                    }
                }
                let mut prev: Option<(u64, u64, usize)> = None;
                for (pos, len) in pairs(tier, n > 100 || order > 0) {
                    stats.evaluations += 1;
                    stats.transitions += 1;
                    let hist = vec![tpl.clone(), format!("progress_chars {:?}", set_s), format!("style built as: {order_name}"), format!("pos {pos} len {len}")];
                    let r = catch(|| {
                        pb.update(|s| {
                            s.set_len(len);
                            s.set_pos(pos);
                        });
                        frame_lines(&catcher, &pb)
                    });
                    match r {
                        Err(p) => stats.violation(Violation { class: format!("panic: {}", panic_class(&p)), config: "bar".into(), history: hist, detail: p }),
                        Ok(lines) => {
                            let line = lines.first().cloned().unwrap_or_default();
                            let Some(inner) = line.strip_prefix('|').and_then(|l| l.strip_suffix('|')) else {
                                stats.violation(Violation { class: "frame: delimiters lost".into(), config: "bar".into(), history: hist, detail: line });
                                continue;
                            };
                            // the columns left over when N is not a multiple of the cell width go to the side(s)
                            // the alignment flag names: move them to the right for the judge
                            let moved;
                            let inner = if order == 3 || order == 4 {
                                let t = inner.trim_matches(' ');
                                moved = format!("{}{}", t, " ".repeat(inner.chars().filter(|c| *c == ' ').count() - t.chars().filter(|c| *c == ' ').count()));
                                moved.as_str()
                            } else {
                                inner
                            };
                            match judge(inner, &set, n, c, pos, len) {
                                Ok((filled, partial)) => {
                                    if let Some((ppos, plen, pf)) = prev {
                                        if plen == len && ppos <= pos && filled < pf {
                                            stats.violation(Violation { class: "filled: not monotone in the position".into(), config: "bar".into(), history: hist.clone(), detail: format!("pos {ppos} -> {pf} cells, pos {pos} -> {filled} cells") });
                                        }
                                    }
                                    prev = Some((pos, len, filled));
                                    stats.state_outcome(hash_of(&(n.min(70), c, k, filled.min(70), partial, len.min(1 << 25))), filled > 0 || partial);
                                }
                                Err((class, detail)) => stats.violation(Violation { class, config: "bar".into(), history: hist, detail }),
                            }
                        }
                    }
                }
                pb.abandon();
                }
            }
        }
    }
    // wide_bar: the whole line is exactly as wide as the terminal whenever the rest fits
    for tw in 1..=40u16 {
        let catcher = LineCatcher::new(tw);
        for rest in 0..=6usize {
            for c in [1usize, 2] {
                for (k, lead) in [(2usize, true), (3, false), (10, true)] {
                    case += 1;
                    if !shard.owns(case) {
                        continue;
                    }
                    let set = charset(k, c);
                    let set_s: String = set.iter().collect();
                    let x = "x".repeat(rest);
                    // (k == 3: the rest of the line ends with a brace before a line break, which stands for itself)
                    let tpl = if lead { format!("{x}{{wide_bar}}") } else if rest >= 1 { format!("{{wide_bar}}{}{{\nyy", &x[1..]) } else { format!("{{wide_bar}}{x}") };
                    let style = ProgressStyle::with_template(&tpl).unwrap().progress_chars(&set_s);
                    let pb = bar_on(&catcher, Some(7), style);
                    for pos in [0u64, 1, 3, 6, 7, 9] {
                        stats.evaluations += 1;
                        stats.transitions += 1;
                        let hist = vec![tpl.clone(), format!("terminal width {tw}"), format!("progress_chars {:?}", set_s), format!("pos {pos} len 7")];
                        let r = catch(|| {
                            pb.update(|s| s.set_pos(pos));
                            frame_lines(&catcher, &pb)
                        });
                        match r {
                            Err(p) => stats.violation(Violation { class: format!("panic: {}", panic_class(&p)), config: "wide_bar".into(), history: hist, detail: p }),
                            Ok(lines) => {
                                let line = lines.first().cloned().unwrap_or_default();
                                let cols: usize = line.chars().map(|ch| if ch == 'x' || ch == '{' || set.contains(&ch) && c == 1 { 1 } else { 2 }).sum();
                                let w = tw as usize;
                                if rest <= w {
                                    let want = w - ((w - rest) % c);
                                    if cols != want {
                                        let class = if cols > w { "wide_bar: line wider than the terminal" } else { "wide_bar: line does not fill the terminal width" };
                                        stats.violation(Violation { class: class.into(), config: "wide_bar".into(), history: hist, detail: format!("{cols} columns, expected {want}: {:?}", line) });
                                        continue;
                                    }
                                    let inner: String = line.chars().filter(|&ch| ch != 'x' && ch != '{').collect();
                                    match judge(&inner, &set, (w - rest) / c * c, c, pos, 7) {
                                        Ok((filled, partial)) => stats.state_outcome(hash_of(&("wide", tw, rest, c, k, filled, partial)), filled > 0),
                                        Err((class, detail)) => stats.violation(Violation { class: format!("wide_bar {class}"), config: "wide_bar".into(), history: hist, detail }),
                                    }
                                } else {
                                    stats.state_outcome(hash_of(&("wide-overfull", tw, rest)), false);
                                }
                            }
                        }
                    }
                    pb.abandon();
                }
            }
        }
    }
    // a terminal with fewer rows than the bar line wraps to: the line is painted whole or not at all
    for (tw, th, n) in [(20u16, 1u16, 40usize), (10, 2, 35), (7, 1, 8), (5, 3, 20)] {
        case += 1;
        if !shard.owns(case) {
            continue;
        }
        let mut catcher = LineCatcher::new(tw);
        catcher.h = th;
        for c in [1usize, 2] {
            let set = charset(3, c);
            let set_s: String = set.iter().collect();
            let tpl = format!("{{bar:{n}}}");
            stats.evaluations += 1;
            stats.transitions += 1;
            let hist = vec![tpl.clone(), format!("terminal {tw}x{th}"), format!("progress_chars {:?}", set_s), "pos 3 len 7".to_string()];
            match catch(|| {
                let pb = bar_on(&catcher, Some(7), ProgressStyle::with_template(&tpl).unwrap().progress_chars(&set_s)).with_position(3);
                catcher.take();
                pb.force_draw();
                let l = catcher.take();
                pb.abandon();
                l
            }) {
                Err(p) => stats.violation(Violation { class: format!("panic: {}", panic_class(&p)), config: "short terminal".into(), history: hist, detail: p }),
                Ok(payloads) => {
                    let cells: String = payloads.iter().flat_map(|s| s.chars()).filter(|ch| set.contains(ch)).collect();
                    if cells.is_empty() {
                        stats.state_outcome(hash_of(&("short", tw, th, n, c, 0)), false);
                    } else {
                        match judge(&cells, &set, n / c * c, c, 3, 7) {
                            Ok((filled, partial)) => stats.state_outcome(hash_of(&("short", tw, th, n, c, filled, partial)), true),
                            Err((class, detail)) => stats.violation(Violation { class: format!("short terminal: {class}"), config: "short terminal".into(), history: hist, detail }),
                        }
                    }
                }
            }
        }
    }
    // very wide terminals, and a {bar:N} line after the {wide_bar} line (each line has its own elements only)
    for tw in [100u16, 512, 513, 1000, 4000, u16::MAX] {
        case += 1;
        if !shard.owns(case) {
            continue;
        }
        let catcher = LineCatcher::new(tw);
        for c in [1usize, 2] {
            let set = charset(3, c);
            let set_s: String = set.iter().collect();
            let tpl = "x{wide_bar}\n|{bar:6}|{pos}";
            stats.evaluations += 1;
            stats.transitions += 1;
            let hist = vec![tpl.to_string(), format!("terminal width {tw}"), format!("progress_chars {:?}", set_s), "pos 3 len 7".to_string()];
            match catch(|| {
                let pb = bar_on(&catcher, Some(7), ProgressStyle::with_template(tpl).unwrap().progress_chars(&set_s)).with_position(3);
                let l = frame_lines(&catcher, &pb);
                pb.abandon();
                l
            }) {
                Err(p) => stats.violation(Violation { class: format!("panic: {}", panic_class(&p)), config: "wide_bar+line".into(), history: hist, detail: p }),
                Ok(lines) => {
                    let first = lines.first().cloned().unwrap_or_default();
                    let cols: usize = first.chars().map(|ch| if ch == 'x' || c == 1 { 1 } else { 2 }).sum();
                    let w = tw as usize;
                    let want = w - ((w - 1) % c);
                    let second = lines.get(1).cloned().unwrap_or_default();
                    let inner = second.strip_prefix('|').and_then(|l| l.strip_suffix("|3")).map(|s| s.to_string());
                    if cols != want {
                        let class = if cols > w { "wide_bar: line wider than the terminal" } else { "wide_bar: line does not fill the terminal width" };
                        stats.violation(Violation { class: class.into(), config: "wide_bar+line".into(), history: hist, detail: format!("{cols} columns, expected {want}") });
                    } else {
                        match inner.ok_or(("frame: the line after the wide_bar line is not its own template line".to_string(), second.clone())).and_then(|i| judge(&i, &set, 6, c, 3, 7)) {
                            Ok((filled, partial)) => stats.state_outcome(hash_of(&("wide+line", tw, c, filled, partial)), true),
                            Err((class, detail)) => stats.violation(Violation { class: format!("line after wide_bar: {class}"), config: "wide_bar+line".into(), history: hist, detail }),
                        }
                    }
                }
            }
        }
    }
    // wide_bar next to a fixed-width, non-truncating field that its content overflows
    for tw in 10..=30u16 {
        case += 1;
        if !shard.owns(case) {
            continue;
        }
        let catcher = LineCatcher::new(tw);
        for c in [1usize, 2] {
            for (tpl, before) in [("{wide_bar} {pos:>1}/{len:2}", false), ("{pos:>2} {wide_bar}", true)] {
                let set = charset(3, c);
                let set_s: String = set.iter().collect();
                let style = ProgressStyle::with_template(tpl).unwrap().progress_chars(&set_s);
                let pb = bar_on(&catcher, Some(2000), style);
                for pos in [0u64, 7, 150, 1500, 2000] {
                    stats.evaluations += 1;
                    stats.transitions += 1;
                    let hist = vec![tpl.to_string(), format!("terminal width {tw}"), format!("progress_chars {:?}", set_s), format!("pos {pos} len 2000")];
                    match catch(|| {
                        pb.update(|s| s.set_pos(pos));
                        frame_lines(&catcher, &pb)
                    }) {
                        Err(p) => stats.violation(Violation { class: format!("panic: {}", panic_class(&p)), config: "wide_bar+field".into(), history: hist, detail: p }),
                        Ok(lines) => {
                            let line = lines.first().cloned().unwrap_or_default();
                            let cols: usize = line.chars().map(|ch| if set.contains(&ch) && c == 2 { 2 } else { 1 }).sum();
                            let rest = if before { pos.to_string().len().max(2) + 1 } else { 1 + pos.to_string().len().max(1) + 1 + 4 };
                            let w = tw as usize;
                            if rest <= w {
                                let want = w - ((w - rest) % c);
                                if cols != want {
                                    stats.violation(Violation { class: "wide_bar: line is not as wide as the terminal next to an overflowing fixed-width field".into(), config: "wide_bar+field".into(), history: hist, detail: format!("{cols} columns, expected {want}: {:?}", line) });
                                    continue;
                                }
                            }
                            stats.state_outcome(hash_of(&("wide+field", tw, c, before, pos)), true);
                        }
                    }
                }
                pb.abandon();
            }
        }
    }
    // the terminal is resized between two ordinary redraws of the same bar
    for w1 in 1..=14u16 {
        for w2 in 1..=14u16 {
            case += 1;
            if w1 == w2 || !shard.owns(case) {
                continue;
            }
            for rest in [0usize, 3] {
                for (c, multi) in [(1usize, false), (2, false), (1, true), (2, true)] {
                    let catcher = LineCatcher::new(w1);
                    let set = charset(3, c);
                    let set_s: String = set.iter().collect();
                    let tpl = format!("{}{{wide_bar}}", "x".repeat(rest));
                    let style = ProgressStyle::with_template(&tpl).unwrap().progress_chars(&set_s);
                    // standalone, or as the only member of a MultiProgress that owns the terminal
                    let mp = multi.then(|| indicatif::MultiProgress::with_draw_target(indicatif::ProgressDrawTarget::term_like(Box::new(catcher.clone()))));
                    let pb = match mp.as_ref() {
                        Some(mp) => mp.add(indicatif::ProgressBar::with_draw_target(Some(7), indicatif::ProgressDrawTarget::hidden()).with_style(style)),
                        None => bar_on(&catcher, Some(7), style),
                    };
                    pb.set_position(3);
                    for (step, gap_ms) in [(0usize, 0u64), (1, 1), (2, 100), (3, 1000)] {
                        let tw = if step % 2 == 0 { w1 } else { w2 };
                        catcher.resize(tw);
                        crate::clock::advance_ms(gap_ms);
                        stats.evaluations += 1;
                        stats.transitions += 1;
                        let hist = vec![tpl.clone(), format!("progress_chars {:?}", set_s), format!("{}widths {w1} <-> {w2}, redraw #{step} at width {tw} after {gap_ms} ms", if multi { "member of a MultiProgress, " } else { "" })];
                        match catch(|| crate::render::frame_lines_tick(&catcher, &pb)) {
                            Err(p) => stats.violation(Violation { class: format!("panic: {}", panic_class(&p)), config: "wide_bar-resize".into(), history: hist, detail: p }),
                            Ok(lines) => {
                                let line = lines.first().cloned().unwrap_or_default();
                                let cols: usize = line.chars().map(|ch| if ch == 'x' || c == 1 { 1 } else { 2 }).sum();
                                let w = tw as usize;
                                if rest <= w {
                                    let want = w - ((w - rest) % c);
                                    if cols != want {
                                        stats.violation(Violation { class: "wide_bar: line width does not follow the current terminal width after a resize".into(), config: "wide_bar-resize".into(), history: hist, detail: format!("{cols} columns, expected {want}: {:?}", line) });
                                        continue;
                                    }
                                }
                                stats.state_outcome(hash_of(&("resize", w1, w2, step, rest, c, multi)), true);
                            }
                        }
                    }
                    pb.abandon();
                }
            }
        }
    }
    // histories on a rate-limited target: cells painted after skipped draws (set_length, inc, println,
    // suspend, finish ...) follow the current position and length
    crate::c04s::run_bar(tier, shard, stats);
    stats.sample(json!({"template": "|{bar:7}|", "progress_chars": "#123-", "pos": 3, "len": 7}));
    stats.sample(json!({"template": "xx{wide_bar}", "terminal_width": 9, "progress_chars": "＃－", "pos": 6, "len": 7}));
}

pub fn meta(_tier: Tier) -> Meta {
    Meta {
        level: "exploration",
        rule: "{bar:N} for N in 0..=64,100,255,1000,65535 x progress character sets of k=2..=10 clusters of width 1 and 2 (k in {2,3,10} for N>100) x every position 0..=len+1 for small lengths plus boundary positions for 2^24-1, 2^24, 2^24+1, 2^32, u64::MAX; for N <= 12 also with the style put together in the other orders (progress_chars before template, template replaced on a live bar's style); {wide_bar} first/last with 0..=6 other columns on terminals of 1..=40 columns; {wide_bar} next to an overflowing fixed-width field; bar cells after every history of <= 4 (5) operations on a rate-limited standalone bar (skipped draws, println, suspend, length changes); a terminal resized between redraws (all width pairs 1..=14, standalone and as a MultiProgress member); cell-geometry laws with exact rational fill (relative tolerance 2^-21 for the f32 fraction); distinct = (N, c, k, filled, partial, length class); non-trivial = at least one filled or partial cell".into(),
        assumptions: vec!["with two progress characters the partial cell is indistinguishable from background, so the partial-cell law is judged for k >= 3".into()],
        bounds: json!({}),
        exhaustive: true,
    }
}

pub fn replay(v: &Value) -> i32 {
    if let Some(c) = crate::c04s::replay(v) {
        return c;
    }
    println!("case: {}\nrecorded: {}", v["history"], v["detail"]);
    1
}
