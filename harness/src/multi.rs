//! HIST engine for MultiProgress (C02, C03, C04, C19): histories over up to 4 bars on one
//! `term_like(spy)` target, judged against a permissive list-of-bars reference model.
//!
//! The oracle is deliberately independent of *when* the implementation reaps a dropped bar; see
//! DESIGN.md §3 C02 for the clauses and reading decisions.

use crate::report::{hash_of, Hist, Stats, Verdict, Violation};
use crate::term::{wrap_rows, Spy};
use crate::util::{catch, panic_class};
use crate::clock;
use indicatif::{MultiProgress, MultiProgressAlignment, ProgressBar, ProgressDrawTarget, ProgressFinish, ProgressStyle};

#[derive(Clone, Debug, PartialEq)]
pub enum Op {
    Add,
    Insert0,
    FromBack1,
    Before(u8),
    After(u8),
    Tick(u8),
    Inc(u8),
    Msg(u8, u8),
    Finish(u8),
    FinishClear(u8),
    Abandon(u8),
    FinishMsg(u8),
    DropBar(u8),
    BarPrintln(u8),
    /// println("") on a member bar: an empty log line
    BarPrintlnEmpty(u8),
    MpPrintln,
    /// one println of three lines, the middle one empty
    MpPrintln3,
    MpClear,
    MpSuspend,
    MpSuspendEmpty,
    BarSuspend(u8),
    Remove(u8),
    AlignBottom,
    AlignTop,
    Burn(u8),
    Idle,
}

#[derive(Clone, Copy, PartialEq, Eq, Hash, Debug)]
pub enum Status {
    InProgress,
    DoneVisible,
    DoneHidden,
}

#[derive(Clone, Copy, PartialEq, Eq, Debug)]
pub enum Fin {
    AndLeave,
    AndClear,
    WithMessage,
    Abandon,
    AbandonWithMessage,
}

impl Fin {
    fn real(&self) -> ProgressFinish {
        match self {
            Fin::AndLeave => ProgressFinish::AndLeave,
            Fin::AndClear => ProgressFinish::AndClear,
            Fin::WithMessage => ProgressFinish::WithMessage("fin".into()),
            Fin::Abandon => ProgressFinish::Abandon,
            Fin::AbandonWithMessage => ProgressFinish::AbandonWithMessage("abd".into()),
        }
    }
}

const FINS: [Fin; 5] = [Fin::AndLeave, Fin::AndClear, Fin::WithMessage, Fin::Abandon, Fin::AbandonWithMessage];

#[derive(Clone)]
pub struct Cfg {
    pub name: &'static str,
    pub w: usize,
    pub h: usize,
    pub hz: Option<u8>,
    pub two_line: bool,
    pub max_bars: usize,
    /// rotation of the on_finish behaviours over bar indices
    pub fin_rot: usize,
    /// operations executed (not judged) before the explored history
    pub root: Vec<Op>,
    pub inserts: bool,
    pub align: bool,
    pub suspend: bool,
    pub remove: bool,
    pub clear: bool,
    pub bar_println: bool,
    pub finishes: bool,
    /// only the clearing finish and AndClear on drop (no visibly finished bars, hence no zombies)
    pub clear_only: bool,
    pub limiter_ops: bool,
    /// messages for Msg(x, k); index 0 short, others by configuration
    pub msgs: Vec<String>,
    /// length log texts are padded to (0 = natural)
    pub log_len: usize,
    pub vt: bool,
    /// enforce the height-overflow clauses (C19)
    pub height_clauses: bool,
    /// every log line has the same text (count is then the only thing that distinguishes them)
    pub same_log_text: bool,
    /// focus: keep only these operations in the alphabet (small alphabets reach deep histories)
    pub only: Option<fn(&Op) -> bool>,
    /// println of an empty string / of three lines in the alphabet
    pub odd_logs: bool,
    /// the terminal is too short for all bars: a live bar may be missing from the screen (general
    /// oracle otherwise: every row is a printed line or a member's rendering, order, no duplicates)
    pub may_omit: bool,
    /// MultiProgress::set_move_cursor(true): redraws move the cursor up instead of clearing the rows first
    /// (the set of bars and the height of their renderings must then stay the same)
    pub move_cursor: bool,
    /// the terminal does not report its height (`TermLike::height()` is left to the trait default, 20 rows)
    pub default_height: bool,
}

impl Cfg {
    pub fn base(name: &'static str, w: usize, h: usize) -> Cfg {
        Cfg {
            name,
            w,
            h,
            hz: None,
            two_line: false,
            max_bars: 3,
            fin_rot: 0,
            root: vec![],
            inserts: true,
            align: false,
            suspend: true,
            remove: true,
            clear: true,
            bar_println: true,
            finishes: true,
            clear_only: false,
            limiter_ops: false,
            msgs: vec!["m".into(), "n".repeat(w + 3)],
            log_len: 0,
            vt: false,
            height_clauses: false,
            same_log_text: false,
            only: None,
            odd_logs: false,
            may_omit: false,
            move_cursor: false,
            default_height: false,
        }
    }

    pub fn describe(&self) -> String {
        format!(
            "{} W={} H={} hz={:?} two_line={} max_bars={} fin_rot={} root={:?} msgs={:?} log_len={} same_log={}",
            self.name, self.w, self.h, self.hz, self.two_line, self.max_bars, self.fin_rot, self.root, self.msgs.iter().map(|m| m.len()).collect::<Vec<_>>(), self.log_len, self.same_log_text
        )
    }

    fn template(&self) -> &'static str {
        if self.two_line {
            "{prefix}:{msg}\n{prefix}+{pos}"
        } else {
            "{prefix}:{msg}"
        }
    }
}

#[derive(Clone, Debug)]
struct RB {
    name: char,
    msg: String,
    pos: u64,
    len: u64,
    status: Status,
    fin: Fin,
    dropped: bool,
    removed: bool,
    /// lines in the member's draw state (None = never rendered)
    pending: Option<Vec<String>>,
    /// lines as of the last paint
    shown: Option<Vec<String>>,
    may_vanish: bool,
    /// dropped bars this one is not ordered against (index-based insert after their drop)
    unordered: Vec<u8>,
    past: Vec<Vec<String>>,
}

impl RB {
    fn render(&self, two_line: bool) -> Vec<String> {
        if self.status == Status::DoneHidden {
            return vec![];
        }
        let mut v = vec![format!("{}:{}", self.name, self.msg)];
        if two_line {
            v.push(format!("{}+{}", self.name, self.pos));
        }
        v
    }

    fn apply_fin(&mut self, f: Fin) {
        match f {
            Fin::AndLeave => {
                self.pos = self.len;
                self.status = Status::DoneVisible;
            }
            Fin::AndClear => {
                self.pos = self.len;
                self.status = Status::DoneHidden;
            }
            Fin::WithMessage => {
                self.pos = self.len;
                self.msg = "fin".into();
                self.status = Status::DoneVisible;
            }
            Fin::Abandon => self.status = Status::DoneVisible,
            Fin::AbandonWithMessage => {
                self.msg = "abd".into();
                self.status = Status::DoneVisible;
            }
        }
    }
}

struct World {
    mp: MultiProgress,
    spy: Spy,
    bars: Vec<Option<ProgressBar>>,
}

#[derive(Clone)]
struct Ref {
    logs: Vec<String>,
    order: Vec<u8>,
    bars: Vec<RB>,
    bottom_ever: bool,
    /// the alignment in force is Bottom
    bottom_now: bool,
    cleared: bool,
}

impl Cfg {
    fn log_text(&self, n: usize, tag: &str) -> String {
        if self.same_log_text {
            return "retrying".to_string();
        }
        let mut s = format!("{}{}", tag, n);
        while s.len() < self.log_len {
            s.push('x');
        }
        s
    }
}

fn name_of(i: usize) -> char {
    (b'a' + i as u8) as char
}

impl Hist for Cfg {
    type Op = Op;

    fn alphabet(&self, prefix: &[Op]) -> Vec<Op> {
        // logical bookkeeping only (cheap): which bars exist / have live handles / are removed
        let mut n = 0usize;
        let mut alive: Vec<bool> = vec![];
        let mut removed: Vec<bool> = vec![];
        for op in self.root.iter().chain(prefix.iter()) {
            match op {
                Op::Add | Op::Insert0 | Op::FromBack1 | Op::Before(_) | Op::After(_) => {
                    n += 1;
                    alive.push(true);
                    removed.push(false);
                }
                Op::DropBar(x) => alive[*x as usize] = false,
                Op::Remove(x) => removed[*x as usize] = true,
                _ => {}
            }
        }
        let mut v = Vec::new();
        let live: Vec<u8> = (0..n as u8).filter(|&x| alive[x as usize]).collect();
        let members: Vec<u8> = live.iter().copied().filter(|&x| !removed[x as usize]).collect();
        if n < self.max_bars {
            v.push(Op::Add);
            if self.inserts {
                v.push(Op::Insert0);
                v.push(Op::FromBack1);
                for &b in &members {
                    v.push(Op::Before(b));
                    v.push(Op::After(b));
                }
            }
        }
        for &x in &live {
            v.push(Op::Tick(x));
            v.push(Op::Inc(x));
            for k in 0..self.msgs.len() as u8 {
                v.push(Op::Msg(x, k));
            }
            if self.clear_only {
                v.push(Op::FinishClear(x));
            } else if self.finishes {
                v.push(Op::Finish(x));
                v.push(Op::FinishClear(x));
                v.push(Op::Abandon(x));
                v.push(Op::FinishMsg(x));
            }
            v.push(Op::DropBar(x));
            if self.bar_println {
                v.push(Op::BarPrintln(x));
                if self.odd_logs && x == live[0] && !removed[x as usize] {
                    v.push(Op::BarPrintlnEmpty(x));
                }
            }
            if self.suspend && x == live[0] && !removed[x as usize] {
                v.push(Op::BarSuspend(x));
            }
            if self.remove && !removed[x as usize] {
                v.push(Op::Remove(x));
            }
            if self.limiter_ops && x == live[0] {
                v.push(Op::Burn(x));
            }
        }
        v.push(Op::MpPrintln);
        if self.odd_logs {
            v.push(Op::MpPrintln3);
        }
        if self.clear {
            v.push(Op::MpClear);
        }
        if self.suspend {
            v.push(Op::MpSuspend);
            v.push(Op::MpSuspendEmpty);
        }
        if self.align {
            v.push(Op::AlignBottom);
            v.push(Op::AlignTop);
        }
        if self.limiter_ops {
            v.push(Op::Idle);
        }
        if let Some(keep) = self.only {
            v.retain(keep);
        }
        v
    }

    fn config_name(&self) -> String {
        self.describe()
    }

    fn run(&self, hist: &[Op], stats: &mut Stats) -> Verdict {
        clock::reset();
        let spy = Spy::new(self.w, self.h, self.vt);
        let target = match self.hz {
            None if self.default_height => ProgressDrawTarget::term_like(spy.boxed_default_height()),
            None => ProgressDrawTarget::term_like(spy.boxed()),
            Some(hz) => ProgressDrawTarget::term_like_with_hz(spy.boxed(), hz),
        };
        let mut wd = World { mp: MultiProgress::with_draw_target(target), spy: spy.clone(), bars: vec![] };
        if self.move_cursor {
            wd.mp.set_move_cursor(true);
        }
        let mut rf = Ref { logs: vec![], order: vec![], bars: vec![], bottom_ever: false, bottom_now: false, cleared: false };
        let all: Vec<&Op> = self.root.iter().chain(hist.iter()).collect();
        let shown_hist: Vec<String> = hist.iter().map(|o| format!("{:?}", o)).collect();
        let total = all.len();
        let mut doc_before: Vec<String> = vec![];
        let mut last_painted = false;
        let mut must_paint = false;
        let mut drop_finished_noop: Option<Vec<String>> = None;
        let mut bottom_before = false;
        let trace = std::env::var("VCHECK_TRACE").is_ok();
        if trace {
            spy.enable_log();
        }

        for (i, op) in all.iter().enumerate() {
            clock::advance_ms(2);
            let is_last = i + 1 == total;
            if is_last {
                doc_before = spy.doc();
            }
            let flushes0 = spy.flushes();
            let r = catch(|| self.apply_real(&mut wd, op, &rf));
            if let Err(p) = r {
                let _ = catch(move || drop(wd));
                return Verdict::Bad(Violation {
                    class: format!("panic: {}", panic_class(&p)),
                    config: self.describe(),
                    history: shown_hist.clone(),
                    detail: p,
                });
            }
            let painted = spy.flushes() > flushes0;
            if trace {
                let mut st = spy.st();
                let calls = st.log.replace(Vec::new()).unwrap_or_default();
                println!("    {:?}: painted={} calls={:?}\n      doc={:?} cursor={:?}", op, painted, calls, st.model.doc(), st.model.cursor());
            }
            if is_last {
                bottom_before = rf.bottom_now;
            }
            let (mp_, dfn) = self.apply_ref(&mut rf, op, painted);
            if is_last {
                last_painted = painted;
                must_paint = mp_;
                drop_finished_noop = if dfn { Some(doc_before.clone()) } else { None };
            }
        }

        let (doc, flushes, vt_cmp, vt_mis, scroll) = {
            let st = spy.st();
            if st.vt_panics > 0 {
                stats.bump("vt100_crate_panics", st.vt_panics);
            }
            (st.model.doc(), st.flushes, st.vt_compares, st.vt_mismatch.clone(), st.model.scrollback_rows())
        };
        stats.vt_compares += vt_cmp;
        let _ = catch(move || drop(wd));
        if let Some(m) = vt_mis {
            return Verdict::Machinery(format!("terminal model disagrees with vt100: {m} on {:?} ({})", shown_hist, self.describe()));
        }
        if hist.is_empty() {
            return Verdict::Ok { hash: 0, nontrivial: false };
        }
        let bad = |class: String, detail: String| {
            Verdict::Bad(Violation { class, config: self.describe(), history: shown_hist.clone(), detail })
        };
        if must_paint && !last_painted {
            return bad(
                "final-state: finishing/dropping/printing did not paint a frame".into(),
                format!("operation must paint regardless of the limiter, but no frame was flushed; document {:?}", doc),
            );
        }
        if let Some(before) = drop_finished_noop {
            if doc != before {
                return bad(
                    "drop-finished: dropping an already finished bar changed the screen".into(),
                    format!("before {:?} after {:?}", before, doc),
                );
            }
        }
        if !last_painted {
            if doc != doc_before {
                return bad(
                    "unpainted-change: the document changed although no frame was completed".into(),
                    format!("before {:?} after {:?}", doc_before, doc),
                );
            }
            let h = hash_of(&(&doc, "unpainted", rf.order.clone()));
            return Verdict::Ok { hash: h, nontrivial: !doc.is_empty() };
        }
        let _ = flushes;
        match self.judge(&rf, &doc, scroll) {
            Ok(()) => {}
            Err((class, detail)) => return bad(class, format!("{detail}; document {:?}", doc)),
        }
        // bottom alignment: the bars stay at the bottom of the region when it shrinks; only clearing
        // or suspending the whole region (and a change of alignment) may move its bottom row up
        if bottom_before && rf.bottom_now && !self.height_clauses && !matches!(all[total - 1], Op::MpClear | Op::MpSuspend | Op::MpSuspendEmpty | Op::BarSuspend(_) | Op::AlignTop | Op::AlignBottom) {
            let live_rows: Vec<String> = rf.order.iter().map(|&x| &rf.bars[x as usize]).filter(|b| !b.dropped).filter_map(|b| b.shown.as_ref().and_then(|s| s.first().cloned())).filter(|r| !r.is_empty()).collect();
            let still_there = live_rows.iter().any(|r| doc_before.contains(r) && doc.contains(r));
            if still_there && doc.len() < doc_before.len() {
                return bad("bottom: the bars moved up although the alignment is Bottom (the region's last row is not where it was)".into(), format!("before {:?}, after {:?}", doc_before, doc));
            }
        }
        stats.outcomes.insert(hash_of(&doc));
        let key: Vec<(char, &str, u64, Status, bool, bool)> = rf.bars.iter().map(|b| (b.name, b.msg.as_str(), b.pos, b.status, b.dropped, b.removed)).collect();
        let h = hash_of(&(&doc, &key, &rf.order, rf.cleared));
        let on_screen = doc.iter().any(|r| !r.is_empty());
        Verdict::Ok { hash: h, nontrivial: on_screen }
    }
}

impl Cfg {
    fn new_bar(&self, idx: usize) -> ProgressBar {
        let fin = if self.clear_only { Fin::AndClear } else { FINS[(idx + self.fin_rot) % FINS.len()] };
        ProgressBar::with_draw_target(Some(5), ProgressDrawTarget::hidden())
            .with_style(ProgressStyle::with_template(self.template()).unwrap())
            .with_prefix(name_of(idx).to_string())
            .with_finish(fin.real())
    }

    fn apply_real(&self, wd: &mut World, op: &Op, rf: &Ref) {
        let idx = wd.bars.len();
        let bar = |x: &u8| wd.bars[*x as usize].as_ref().unwrap();
        match op {
            Op::Add => {
                let b = wd.mp.add(self.new_bar(idx));
                wd.bars.push(Some(b));
            }
            Op::Insert0 => {
                let b = wd.mp.insert(0, self.new_bar(idx));
                wd.bars.push(Some(b));
            }
            Op::FromBack1 => {
                let b = wd.mp.insert_from_back(1, self.new_bar(idx));
                wd.bars.push(Some(b));
            }
            Op::Before(x) => {
                let b = wd.mp.insert_before(bar(x), self.new_bar(idx));
                wd.bars.push(Some(b));
            }
            Op::After(x) => {
                let b = wd.mp.insert_after(bar(x), self.new_bar(idx));
                wd.bars.push(Some(b));
            }
            Op::Tick(x) => bar(x).tick(),
            Op::Inc(x) => bar(x).inc(1),
            Op::Msg(x, k) => bar(x).set_message(self.msgs[*k as usize].clone()),
            Op::Finish(x) => bar(x).finish(),
            Op::FinishClear(x) => bar(x).finish_and_clear(),
            Op::Abandon(x) => bar(x).abandon(),
            Op::FinishMsg(x) => bar(x).finish_with_message("done"),
            Op::DropBar(x) => {
                wd.bars[*x as usize] = None;
            }
            Op::BarPrintln(x) => bar(x).println(self.log_text(rf.logs.len(), "P")),
            Op::BarPrintlnEmpty(x) => bar(x).println(""),
            Op::MpPrintln => {
                let _ = wd.mp.println(self.log_text(rf.logs.len(), "L"));
            }
            Op::MpPrintln3 => {
                let n = rf.logs.len();
                // the middle line is empty
                let _ = wd.mp.println(format!("{}\n\n{}", self.log_text(n, "L"), self.log_text(n + 2, "L")));
            }
            Op::MpClear => {
                let _ = wd.mp.clear();
            }
            Op::MpSuspend => {
                let spy = wd.spy.clone();
                let t = self.log_text(rf.logs.len(), "S");
                wd.mp.suspend(|| spy.raw_write_line(&t));
            }
            Op::MpSuspendEmpty => wd.mp.suspend(|| ()),
            Op::BarSuspend(x) => {
                let spy = wd.spy.clone();
                let t = self.log_text(rf.logs.len(), "T");
                bar(x).suspend(|| spy.raw_write_line(&t));
            }
            Op::Remove(x) => wd.mp.remove(bar(x)),
            Op::AlignBottom => wd.mp.set_alignment(MultiProgressAlignment::Bottom),
            Op::AlignTop => wd.mp.set_alignment(MultiProgressAlignment::Top),
            Op::Burn(x) => {
                for _ in 0..22 {
                    bar(x).tick();
                }
            }
            Op::Idle => clock::advance_ms(1000),
        }
    }

    /// Returns (must_paint, is_drop_of_finished_member).
    fn apply_ref(&self, rf: &mut Ref, op: &Op, painted: bool) -> (bool, bool) {
        let two = self.two_line;
        let mut must_paint = false;
        let mut drop_finished = false;
        let mut is_clear = false;
        let fresh = |rf: &Ref, idx: usize, fin_rot: usize| RB {
            name: name_of(idx),
            msg: String::new(),
            pos: 0,
            len: 5,
            status: Status::InProgress,
            fin: if self.clear_only { Fin::AndClear } else { FINS[(idx + fin_rot) % FINS.len()] },
            dropped: false,
            removed: false,
            pending: None,
            shown: None,
            may_vanish: false,
            unordered: (0..rf.bars.len() as u8).filter(|&x| rf.bars[x as usize].dropped).collect(),
            past: vec![],
        };
        let idx = rf.bars.len();
        let vanishers = |rf: &mut Ref| {
            for b in rf.bars.iter_mut() {
                if b.dropped || b.status == Status::DoneVisible {
                    b.may_vanish = true;
                }
            }
        };
        let rerender = |b: &mut RB| {
            if !b.removed {
                let r = b.render(two);
                b.pending = Some(r);
            }
        };
        match op {
            Op::Add => {
                let mut b = fresh(rf, idx, self.fin_rot);
                b.unordered.clear();
                rf.bars.push(b);
                rf.order.push(idx as u8);
            }
            Op::Insert0 => {
                let b = fresh(rf, idx, self.fin_rot);
                rf.bars.push(b);
                rf.order.insert(0, idx as u8);
            }
            Op::FromBack1 => {
                let b = fresh(rf, idx, self.fin_rot);
                rf.bars.push(b);
                let p = rf.order.len().saturating_sub(1);
                rf.order.insert(p, idx as u8);
            }
            Op::Before(x) => {
                let mut b = fresh(rf, idx, self.fin_rot);
                // ordered against dropped bars exactly as far as its anchor is
                b.unordered = rf.bars[*x as usize].unordered.clone();
                rf.bars.push(b);
                let p = rf.order.iter().position(|y| y == x).unwrap();
                rf.order.insert(p, idx as u8);
            }
            Op::After(x) => {
                let mut b = fresh(rf, idx, self.fin_rot);
                b.unordered = rf.bars[*x as usize].unordered.clone();
                rf.bars.push(b);
                let p = rf.order.iter().position(|y| y == x).unwrap();
                rf.order.insert(p + 1, idx as u8);
            }
            Op::Tick(x) | Op::Burn(x) => rerender(&mut rf.bars[*x as usize]),
            Op::Inc(x) => {
                let b = &mut rf.bars[*x as usize];
                b.pos += 1;
                rerender(b);
            }
            Op::Msg(x, k) => {
                let b = &mut rf.bars[*x as usize];
                b.msg = self.msgs[*k as usize].clone();
                rerender(b);
            }
            Op::Finish(x) | Op::FinishClear(x) | Op::Abandon(x) | Op::FinishMsg(x) => {
                let b = &mut rf.bars[*x as usize];
                match op {
                    Op::Finish(_) => b.apply_fin(Fin::AndLeave),
                    Op::FinishClear(_) => b.apply_fin(Fin::AndClear),
                    Op::Abandon(_) => b.apply_fin(Fin::Abandon),
                    _ => {
                        b.apply_fin(Fin::WithMessage);
                        b.msg = "done".into();
                    }
                }
                rerender(b);
                must_paint = !b.removed;
            }
            Op::DropBar(x) => {
                let b = &mut rf.bars[*x as usize];
                if b.status == Status::InProgress {
                    let f = b.fin;
                    b.apply_fin(f);
                    rerender(b);
                    must_paint = !b.removed;
                } else {
                    drop_finished = true;
                }
                b.dropped = true;
            }
            Op::BarPrintln(x) => {
                if !rf.bars[*x as usize].removed {
                    let t = self.log_text(rf.logs.len(), "P");
                    rf.logs.push(t);
                    rerender(&mut rf.bars[*x as usize]);
                    must_paint = true;
                    vanishers(rf);
                }
            }
            Op::BarPrintlnEmpty(x) => {
                if !rf.bars[*x as usize].removed {
                    rf.logs.push(String::new());
                    rerender(&mut rf.bars[*x as usize]);
                    must_paint = true;
                    vanishers(rf);
                }
            }
            Op::MpPrintln => {
                let t = self.log_text(rf.logs.len(), "L");
                rf.logs.push(t);
                must_paint = true;
                vanishers(rf);
            }
            Op::MpPrintln3 => {
                for k in 0..3 {
                    let t = if k == 1 { String::new() } else { self.log_text(rf.logs.len(), "L") };
                    rf.logs.push(t);
                }
                must_paint = true;
                vanishers(rf);
            }
            Op::MpClear => {
                is_clear = true;
                vanishers(rf);
            }
            Op::MpSuspend => {
                let t = self.log_text(rf.logs.len(), "S");
                rf.logs.push(t);
                must_paint = true;
                vanishers(rf);
            }
            Op::MpSuspendEmpty => {
                must_paint = true;
                vanishers(rf);
            }
            Op::BarSuspend(x) => {
                let t = self.log_text(rf.logs.len(), "T");
                rf.logs.push(t);
                // a removed bar has a hidden target: the closure still runs, nothing is redrawn
                if !rf.bars[*x as usize].removed {
                    must_paint = true;
                    vanishers(rf);
                }
            }
            Op::Remove(x) => {
                let b = &mut rf.bars[*x as usize];
                // "removing a bar makes its lines disappear": rows of it that are on screen must be repainted away
                if !b.removed && b.shown.as_ref().map_or(false, |s| !s.is_empty()) {
                    must_paint = true;
                }
                b.removed = true;
                b.pending = None;
                rf.order.retain(|y| y != x);
                vanishers(rf);
            }
            Op::AlignBottom => {
                rf.bottom_ever = true;
                rf.bottom_now = true;
            }
            Op::AlignTop => rf.bottom_now = false,
            Op::Idle => {}
        }
        if painted {
            if is_clear {
                rf.cleared = true;
            } else {
                rf.cleared = false;
                for b in rf.bars.iter_mut() {
                    if let Some(old) = b.shown.take() {
                        if !old.is_empty() && b.past.len() < 8 && !b.past.contains(&old) {
                            b.past.push(old);
                        }
                    }
                    b.shown = if b.removed { None } else { b.pending.clone() };
                }
            }
        }
        (must_paint, drop_finished)
    }

    fn rows_of(&self, lines: &[String]) -> Vec<String> {
        lines.iter().flat_map(|l| wrap_rows(l, self.w)).collect()
    }

    fn judge(&self, rf: &Ref, doc: &[String], scroll: usize) -> Result<(), (String, String)> {
        #[derive(Debug, Clone, Copy, PartialEq)]
        enum Item {
            Log(usize),
            Bar(u8),
            Blank,
        }
        if self.height_clauses {
            return self.judge_exact(rf, doc, scroll);
        }
        let log_rows: Vec<Vec<String>> = rf.logs.iter().map(|l| wrap_rows(l, self.w)).collect();
        let bar_rows: Vec<Vec<String>> = rf
            .bars
            .iter()
            .map(|b| b.shown.as_ref().map(|s| self.rows_of(s)).unwrap_or_default())
            .collect();
        let mut items: Vec<(Item, usize)> = Vec::new();
        let mut r = 0usize;
        let mut next_log = 0usize;
        while r < doc.len() {
            // an empty printed line is the first blank row after the previous log
            let empty_log_next = next_log < log_rows.len() && log_rows[next_log].iter().all(|l| l.is_empty());
            if doc[r].is_empty() && !empty_log_next {
                items.push((Item::Blank, r));
                r += 1;
                continue;
            }
            if next_log < log_rows.len() && doc[r..].starts_with(&log_rows[next_log]) {
                items.push((Item::Log(next_log), r));
                r += log_rows[next_log].len();
                next_log += 1;
                continue;
            }
            if let Some(x) = (0..rf.bars.len()).find(|&x| !bar_rows[x].is_empty() && doc[r..].starts_with(&bar_rows[x])) {
                items.push((Item::Bar(x as u8), r));
                r += bar_rows[x].len();
                continue;
            }
            // unparseable: characterise
            let row = &doc[r];
            for (k, lr) in log_rows.iter().enumerate() {
                if lr.first() == Some(row) {
                    return Err(if k < next_log {
                        ("log: a printed line appears twice".into(), format!("row {r} {:?} repeats log #{k}", row))
                    } else {
                        ("log: printed lines out of order or a line missing".into(), format!("row {r} {:?} is log #{k} but log #{next_log} was expected first", row))
                    });
                }
            }
            for (x, b) in rf.bars.iter().enumerate() {
                if b.dropped && bar_rows[x].len() > 1 && bar_rows[x].contains(row) {
                    return Err(("zombie-partial: part of a dropped finished bar's static rendering remains on screen".into(), format!("row {r} {:?} belongs to the final rendering {:?} of dropped bar {}", row, b.shown, b.name)));
                }
            }
            for b in &rf.bars {
                if b.past.iter().any(|p| self.rows_of(p).first() == Some(row)) {
                    return Err(("bars: stale rendering of a member on screen".into(), format!("row {r} {:?} is an earlier rendering of bar {}", row, b.name)));
                }
            }
            // the height clauses tolerate a truncated frame only through the prefix rule, so
            // anything else is residue
            return Err(("residue: a row matches no printed line and no member's last drawn rendering".into(), format!("row {r} {:?}", row)));
        }
        // the document ends at the last non-blank row: empty printed lines at its very end are not observable
        while next_log < log_rows.len() && log_rows[next_log].iter().all(|l| l.is_empty()) {
            next_log += 1;
        }
        if next_log < log_rows.len() {
            return Err(("log: a printed line is missing (erased or overwritten)".into(), format!("log #{next_log} {:?} not found in order", rf.logs[next_log])));
        }
        // per-bar presence
        let count = |x: u8| items.iter().filter(|(it, _)| *it == Item::Bar(x)).count();
        let live: Vec<u8> = rf.order.iter().copied().filter(|&x| !rf.bars[x as usize].dropped).collect();
        let mut expected_live: Vec<u8> = Vec::new();
        for &x in &live {
            let b = &rf.bars[x as usize];
            let rows = &bar_rows[x as usize];
            let c = count(x);
            if c > 1 {
                return Err(("bars: a member appears more than once".into(), format!("bar {} appears {c} times", b.name)));
            }
            if rf.cleared {
                if c != 0 {
                    return Err(("bars: member visible after clear".into(), format!("bar {}", b.name)));
                }
                continue;
            }
            if !rows.is_empty() {
                expected_live.push(x);
            }
        }
        let required: Vec<u8> = if self.may_omit { vec![] } else { expected_live.clone() };
        for &x in &required {
            if count(x) != 1 {
                let b = &rf.bars[x as usize];
                return Err(("bars: a live member's last drawn rendering is not on screen".into(), format!("bar {} {:?} missing", b.name, b.shown)));
            }
        }
        // zombies
        for (x, b) in rf.bars.iter().enumerate() {
            if !b.dropped {
                continue;
            }
            let c = count(x as u8);
            if c > 1 {
                return Err(("bars: a finished, dropped bar appears more than once".into(), format!("bar {} appears {c} times", b.name)));
            }
            // (on a terminal too short for all bars the final frame may never have fitted)
            let must = !b.may_vanish && !rf.cleared && !bar_rows[x].is_empty() && !b.removed && !self.may_omit;
            if must && c != 1 {
                let class = if rf.bottom_ever {
                    "final-state: a visibly finished bar lost its final rendering without println/clear/suspend/remove (bottom alignment in effect)"
                } else {
                    "final-state: a visibly finished bar lost its final rendering without println/clear/suspend/remove"
                };
                return Err((class.into(), format!("bar {} {:?}", b.name, b.shown)));
            }
        }
        // removed bars must not be shown (their `shown` is None, so they cannot parse) — nothing to do
        // order among displayed bars
        let shown_bars: Vec<(u8, usize)> = items.iter().filter_map(|(it, r)| if let Item::Bar(x) = it { Some((*x, *r)) } else { None }).collect();
        let pos_in_order = |x: u8| rf.order.iter().position(|&y| y == x);
        for i in 0..shown_bars.len() {
            for j in i + 1..shown_bars.len() {
                let (a, b) = (shown_bars[i].0, shown_bars[j].0);
                let (ba, bb) = (&rf.bars[a as usize], &rf.bars[b as usize]);
                if ba.unordered.contains(&b) || bb.unordered.contains(&a) {
                    continue;
                }
                if let (Some(pa), Some(pb)) = (pos_in_order(a), pos_in_order(b)) {
                    if pa > pb {
                        return Err(("bars: members not in logical order".into(), format!("bar {} painted above bar {}, logical order {:?}", ba.name, bb.name, rf.order.iter().map(|&x| rf.bars[x as usize].name).collect::<String>())));
                    }
                }
            }
        }
        // logs above live bars
        let last_log = items.iter().rposition(|(it, _)| matches!(it, Item::Log(_)));
        let first_live = items.iter().position(|(it, _)| matches!(it, Item::Bar(x) if !rf.bars[*x as usize].dropped));
        if let (Some(l), Some(f)) = (last_log, first_live) {
            if l > f {
                return Err(("log: a printed line is below a live bar".into(), format!("items {:?}", items)));
            }
        }
        // blank rows
        if !rf.bottom_ever && items.iter().any(|(it, _)| *it == Item::Blank) {
            return Err(("residue: blank gap inside the document (top alignment)".into(), format!("items {:?}", items)));
        }
        // no live bar row in scrollback
        if self.height_clauses || scroll > 0 {
            for (it, r) in &items {
                if let Item::Bar(x) = it {
                    if !rf.bars[*x as usize].dropped && *r < scroll {
                        return Err(("height: a live bar's row scrolled out of the visible screen".into(), format!("bar {} at document row {r}, scrollback rows {scroll}", rf.bars[*x as usize].name)));
                    }
                }
            }
        }
        Ok(())
    }

    /// C19 (no visibly finished bars in these configurations): the document is exactly
    /// logs ++ the longest prefix of the members' lines (logical order) whose rows fit the height.
    fn judge_exact(&self, rf: &Ref, doc: &[String], scroll: usize) -> Result<(), (String, String)> {
        let mut expected: Vec<String> = rf.logs.iter().flat_map(|l| wrap_rows(l, self.w)).collect();
        let frame_start = expected.len();
        let mut omitted = 0usize;
        if !rf.cleared {
            let mut used = 0usize;
            let mut stop = false;
            for &x in &rf.order {
                let b = &rf.bars[x as usize];
                for line in b.shown.iter().flatten() {
                    let rows = wrap_rows(line, self.w);
                    if stop || used + rows.len() > self.h {
                        stop = true;
                        omitted += 1;
                        continue;
                    }
                    used += rows.len();
                    expected.extend(rows);
                }
            }
        }
        let mut e = expected.clone();
        while e.last().map_or(false, |s| s.is_empty()) {
            e.pop();
        }
        if doc != &e[..] {
            let logs_ok = doc.len() >= frame_start.min(e.len()) && doc.iter().zip(expected[..frame_start].iter()).all(|(a, b)| a == b);
            let class = if !logs_ok {
                "log: a printed line is missing, merged or overwritten"
            } else if doc.len() > e.len() {
                "residue: rows left below/inside the region"
            } else if omitted > 0 {
                "height: painted frame is not the leading prefix of lines that fits the terminal height"
            } else {
                "bars: frame differs from the members' last drawn renderings"
            };
            return Err((class.into(), format!("expected {:?} (lines omitted for height: {omitted})", e)));
        }
        if e.len() > frame_start && frame_start < scroll {
            return Err(("height: a live bar's row scrolled out of the visible screen".into(), format!("frame starts at document row {frame_start}, scrollback rows {scroll}")));
        }
        Ok(())
    }
}
