//! C11 — placeholder values reflect the bar state at draw time (ENUM + short HIST prefixes).

use crate::render::{bar_on, frame_lines, LineCatcher};
use crate::report::{hash_of, Shard, Stats, Violation};
use crate::util::{catch, panic_class};
use crate::{clock, Meta, Tier};
use indicatif::{BinaryBytes, DecimalBytes, FormattedDuration, HumanBytes, HumanCount, HumanDuration, HumanFloatCount, ProgressBar, ProgressState, ProgressStyle};
use indicatif::style::ProgressTracker;
use serde_json::{json, Value};
use std::sync::{Arc, Mutex};
use std::time::Instant;

const KEYS: [&str; 30] = [
    // for per_sec the field width is the number of decimals
    "per_sec:0", "per_sec:2",
    "spinner", "prefix", "msg", "pos", "human_pos", "len", "human_len", "percent", "percent_precise", "bytes", "total_bytes", "decimal_bytes", "decimal_total_bytes", "binary_bytes",
    "binary_total_bytes", "elapsed_precise", "elapsed", "per_sec", "bytes_per_sec", "decimal_bytes_per_sec", "binary_bytes_per_sec", "eta_precise", "eta", "duration_precise", "duration", "bar", "wide_bar", "wide_msg",
];
const TICKS: &str = "0123 ";

fn expected(key: &str, pb: &ProgressBar, ticks: u64, finished: bool) -> Option<Vec<String>> {
    let pos = pb.position();
    let len = pb.length().unwrap_or(pos);
    let one = |s: String| Some(vec![s]);
    match key {
        "spinner" => {
            let st = pb.style();
            one(if finished { st.get_final_tick_str().to_string() } else { st.get_tick_str(ticks).to_string() })
        }
        "prefix" => one(pb.prefix()),
        "msg" => one(pb.message()),
        "pos" => one(pos.to_string()),
        "human_pos" => one(HumanCount(pos).to_string()),
        "len" => one(len.to_string()),
        "human_len" => one(HumanCount(len).to_string()),
        "percent" | "percent_precise" => {
            // the completed fraction (C07): pos/len in [0,1], 1 for zero length, 0 for unknown length
            let prec = if key == "percent" { 0 } else { 3 };
            let fr32 = match (pos, pb.length()) {
                (_, None) => 0.0f32,
                (_, Some(0)) => 1.0,
                (0, _) => 0.0,
                (p, Some(l)) => (p as f32 / l as f32).clamp(0.0, 1.0),
            };
            let fr64 = match (pos, pb.length()) {
                (_, None) => 0.0f64,
                (_, Some(0)) => 1.0,
                (p, Some(l)) => (p as f64 / l as f64).clamp(0.0, 1.0),
            };
            Some(vec![format!("{:.*}", prec, fr32 * 100f32), format!("{:.*}", prec, fr64 * 100f64), format!("{:.*}", prec, (fr64 * 100f64) as f32)])
        }
        "bytes" | "binary_bytes" => Some(vec![HumanBytes(pos).to_string(), BinaryBytes(pos).to_string()]),
        "total_bytes" | "binary_total_bytes" => Some(vec![HumanBytes(len).to_string(), BinaryBytes(len).to_string()]),
        "decimal_bytes" => one(DecimalBytes(pos).to_string()),
        "decimal_total_bytes" => one(DecimalBytes(len).to_string()),
        "elapsed_precise" => one(FormattedDuration(pb.elapsed()).to_string()),
        "elapsed" => one(format!("{:#}", HumanDuration(pb.elapsed()))),
        "per_sec" => one(format!("{}/s", HumanFloatCount(pb.per_sec()))),
        "per_sec:0" => one(format!("{:.0}/s", HumanFloatCount(pb.per_sec()))),
        "per_sec:2" => one(format!("{:.2}/s", HumanFloatCount(pb.per_sec()))),
        "bytes_per_sec" | "binary_bytes_per_sec" => Some(vec![format!("{}/s", HumanBytes(pb.per_sec() as u64)), format!("{}/s", BinaryBytes(pb.per_sec() as u64))]),
        "decimal_bytes_per_sec" => one(format!("{}/s", DecimalBytes(pb.per_sec() as u64))),
        "eta_precise" => one(FormattedDuration(pb.eta()).to_string()),
        "eta" => one(format!("{:#}", HumanDuration(pb.eta()))),
        "duration_precise" => one(FormattedDuration(pb.duration()).to_string()),
        "duration" => one(format!("{:#}", HumanDuration(pb.duration()))),
        _ => None,
    }
}

#[derive(Clone, Default)]
struct Probe {
    log: Arc<Mutex<Vec<String>>>,
    /// the tracker of the style installed later writes `V` instead of `W`
    second: bool,
}

impl ProgressTracker for Probe {
    fn clone_box(&self) -> Box<dyn ProgressTracker> {
        Box::new(self.clone())
    }
    fn tick(&mut self, s: &ProgressState, _: Instant) {
        self.log.lock().unwrap().push(format!("tick pos={} len={:?}", s.pos(), s.len()));
    }
    fn reset(&mut self, s: &ProgressState, _: Instant) {
        self.log.lock().unwrap().push(format!("reset pos={} finished={}", s.pos(), s.is_finished()));
    }
    fn write(&self, s: &ProgressState, w: &mut dyn std::fmt::Write) {
        let _ = write!(w, "{} pos={} len={:?} fin={} el={:?} eta={:?} ps={:?}", if self.second { 'V' } else { 'W' }, s.pos(), s.len(), s.is_finished(), s.elapsed(), s.eta(), s.per_sec());
    }
}

pub fn run(tier: Tier, shard: Shard, stats: &mut Stats) {
    let vals: Vec<u64> = vec![0, 1, 5, 995, 999, 1000, 1_000_000, (1 << 53) + 1, u64::MAX - 1, u64::MAX];
    let mut pairs: Vec<(u64, Option<u64>)> = Vec::new();
    for &p in &vals {
        for &l in &vals {
            pairs.push((p, Some(l)));
        }
        pairs.push((p, None));
    }
    let elapsed_ms: Vec<u64> = if tier == Tier::Quick { vec![400, 59_500, 3_600_000] } else { vec![0, 400, 59_500, 3_600_000, 400 * 86_400_000] };
    let catcher = LineCatcher::new(120);
    let mut case = 0u64;
    for key in KEYS {
        if matches!(key, "bar" | "wide_bar" | "wide_msg") {
            continue; // geometry / truncation are C13 / C12
        }
        for &(pos, len) in &pairs {
            for status in 0..3u8 {
                for &el in &elapsed_ms {
                    for prior in 0..3u8 {
                        for ticks in [0u64, 1, 3, 4, 9] {
                            if ticks > 1 && key != "spinner" {
                                continue;
                            }
                            case += 1;
                            if !shard.owns(case) {
                                continue;
                            }
                            stats.evaluations += 1;
                            stats.transitions += 1;
                            let hist = vec![format!("template [{{{key}}}]"), format!("pos {pos} len {:?} status {status} elapsed {el} ms prior updates {prior} ticks {ticks}", len)];
                            clock::reset();
                            let r = catch(|| {
                                let style = ProgressStyle::with_template(&format!("[{{{key}}}]")).unwrap().tick_chars(TICKS);
                                let pb = bar_on(&catcher, len, style).with_message("the message").with_prefix("the prefix");
                                // earlier updates so that the estimator is non-trivial
                                for k in 0..prior {
                                    clock::advance_ms(el / 4 + 1);
                                    pb.set_position(pos / 4 * (k as u64 + 1));
                                }
                                clock::advance_ms(el / 2);
                                for _ in 0..ticks {
                                    pb.tick();
                                }
                                clock::advance_ms(el - el / 2);
                                // manual ticks after set_position calls: count how many ticks the bar saw
                                pb.update(|s| s.set_pos(pos));
                                match status {
                                    1 => pb.finish(),
                                    2 => pb.abandon(),
                                    _ => {}
                                }
                                let lines = frame_lines(&catcher, &pb);
                                // set_position ticks too (prior times), update ticks once
                                let seen_ticks = ticks + prior as u64 + 1;
                                let exp = expected(key, &pb, seen_ticks, status != 0);
                                pb.abandon();
                                (lines, exp)
                            });
                            match r {
                                Err(p) => stats.violation(Violation { class: format!("panic: {}", panic_class(&p)), config: key.into(), history: hist, detail: p }),
                                Ok((lines, exp)) => {
                                    let line = lines.first().cloned().unwrap_or_default();
                                    let got = line.strip_prefix('[').and_then(|l| l.strip_suffix(']')).unwrap_or(&line).to_string();
                                    let exp = exp.unwrap_or_default();
                                    if !exp.contains(&got) {
                                        stats.violation(Violation { class: format!("value: {{{key}}} differs from the getter passed through the public formatter"), config: key.into(), history: hist, detail: format!("rendered {:?}, expected one of {:?}", got, exp) });
                                    } else {
                                        stats.state_outcome(hash_of(&(key, &got)), pos != 0 || el > 400);
                                    }
                                }
                            }
                        }
                    }
                }
            }
        }
    }
    // several placeholders on several template lines: every one still shows the current value
    for tw in [20u16, 40] {
        let catcher2 = LineCatcher::new(tw);
        for (ti, tpl) in ["{wide_msg}\n{pos}/{len} {prefix}", "{prefix} {wide_msg}\n{human_pos}|{msg}|{len}\n{percent}% {prefix}", "{msg}\n{wide_bar} {pos}\n{prefix} {len}", "{wide_msg}\n{wide_msg}\n{pos}"].iter().enumerate() {
            for (pos, len) in [(0u64, 10u64), (7, 10), (1234, 99999)] {
                for msg in ["", "the message", "a message that is much longer than the terminal is wide"] {
                    case += 1;
                    if !shard.owns(case) {
                        continue;
                    }
                    stats.evaluations += 1;
                    stats.transitions += 1;
                    let hist = vec![format!("template {:?}", tpl), format!("terminal width {tw}"), format!("pos {pos} len {len} message {:?}", msg)];
                    let r = catch(|| {
                        let pb = bar_on(&catcher2, Some(len), ProgressStyle::with_template(tpl).unwrap()).with_message(msg).with_prefix("pfx").with_position(pos);
                        let l = frame_lines(&catcher2, &pb);
                        pb.abandon();
                        l
                    });
                    match r {
                        Err(p) => stats.violation(Violation { class: format!("panic: {}", panic_class(&p)), config: "multi-key".into(), history: hist, detail: p }),
                        Ok(lines) => {
                            let w = tw as usize;
                            let wide = |m: &str, other: usize| -> String { m.chars().take(w.saturating_sub(other)).collect::<String>().trim_end().to_string() };
                            let pct = format!("{:.0}", (pos as f32 / len as f32).clamp(0.0, 1.0) * 100.0);
                            let want: Vec<String> = match ti {
                                0 => vec![wide(msg, 0), format!("{pos}/{len} pfx")],
                                1 => vec![format!("pfx {}", wide(msg, 4)), format!("{}|{}|{}", HumanCount(pos), msg, len), format!("{pct}% pfx")],
                                2 => vec![msg.to_string(), String::new(), format!("pfx {len}")],
                                _ => vec![wide(msg, 0), wide(msg, 0), pos.to_string()],
                            };
                            let mut got = lines.clone();
                            let mut ok = got.len() == want.len() || (ti == 2 && msg.is_empty());
                            if ti == 2 && ok {
                                // middle line: a bar ending in " {pos}", exactly as wide as the terminal
                                let idx = if msg.is_empty() && got.len() == 2 { 0 } else { 1 };
                                if !msg.is_empty() || got.len() == 3 {
                                    ok = got[0] == msg;
                                }
                                let bar_line = got.get(if got.len() == 3 { 1 } else { idx }).cloned().unwrap_or_default();
                                ok = ok && bar_line.ends_with(&format!(" {pos}")) && bar_line.chars().count() == w && got.last().map(|l| l.as_str()) == Some(want[2].as_str());
                            } else if ok {
                                for (g, wnt) in got.iter_mut().zip(want.iter()) {
                                    if g.trim_end() != wnt.trim_end() {
                                        ok = false;
                                    }
                                }
                            }
                            if !ok {
                                stats.violation(Violation { class: "value: a placeholder in a multi-line template does not show the current value".into(), config: "multi-key".into(), history: hist, detail: format!("rendered {:?}, expected {:?}", lines, want) });
                            } else {
                                stats.state_outcome(hash_of(&("multi", ti, tw, pos, msg.len())), true);
                            }
                        }
                    }
                }
            }
        }
    }
    // {spinner} on a rate-limited target: ticks whose frame is skipped still advance the spinner
    for hz in [1u8, 20, 255] {
        for n in [1u64, 5, 19, 20, 21, 35, 47] {
            case += 1;
            if !shard.owns(case) {
                continue;
            }
            stats.evaluations += 1;
            stats.transitions += n;
            clock::reset();
            let hist = vec!["template [{spinner}]".to_string(), format!("term_like_with_hz(.., {hz}), {n} ticks at the same instant, then force_draw")];
            let r = catch(|| {
                let style = ProgressStyle::with_template("[{spinner}]").unwrap().tick_chars(TICKS);
                let pb = indicatif::ProgressBar::with_draw_target(Some(10), indicatif::ProgressDrawTarget::term_like_with_hz(Box::new(catcher.clone()), hz)).with_style(style);
                for _ in 0..n {
                    pb.tick();
                }
                let lines = frame_lines(&catcher, &pb);
                let exp = expected("spinner", &pb, n, false);
                pb.abandon();
                (lines, exp)
            });
            match r {
                Err(p) => stats.violation(Violation { class: format!("panic: {}", panic_class(&p)), config: "spinner".into(), history: hist, detail: p }),
                Ok((lines, exp)) => {
                    let line = lines.first().cloned().unwrap_or_default();
                    let got = line.strip_prefix('[').and_then(|l| l.strip_suffix(']')).unwrap_or(&line).to_string();
                    if !exp.clone().unwrap_or_default().contains(&got) {
                        stats.violation(Violation { class: "value: {spinner} lags the tick count when frames are skipped by the rate limiter".into(), config: "spinner".into(), history: hist, detail: format!("rendered {:?}, expected one of {:?}", got, exp) });
                    } else {
                        stats.state_outcome(hash_of(&("spinner-hz", hz, n)), true);
                    }
                }
            }
        }
    }
    // custom keys: receive the current state when written, ticked and reset together with the bar;
    // every frame painted along the way shows the state and the elapsed time of that instant
    let nops = 12u8;
    let mut seqs: Vec<Vec<u8>> = vec![vec![]];
    let depth = if tier == Tier::Quick { 5 } else { 6 };
    for _ in 0..depth {
        let mut next = Vec::new();
        for s in &seqs {
            if s.len() + 1 < seqs.last().map_or(0, |l| l.len()) {
                continue;
            }
            for o in 0..nops {
                let mut d = s.clone();
                d.push(o);
                next.push(d);
            }
        }
        seqs.extend(next);
    }
    seqs.sort();
    seqs.dedup();
    for start_hidden in [false, true] {
    for seq in &seqs {
        case += 1;
        if !shard.owns(case) || seq.is_empty() {
            continue;
        }
        // switching the target is only interesting for a bar that starts hidden
        if !start_hidden && seq.contains(&9) {
            continue;
        }
        stats.evaluations += 1;
        stats.transitions += 1;
        clock::reset();
        let names = ["tick", "inc(2)", "set_position(7)", "set_length(9)", "reset", "finish", "set_message", "suspend(closure taking 2 s)", "println", "set_draw_target(visible)", "the next flush of the terminal fails once", "set_style(same template, key k registered with another tracker)"];
        let hist: Vec<String> = std::iter::once(format!("template [{{k}}] {{elapsed_precise}}{}", if start_hidden { ", bar created with a hidden target" } else { "" })).chain(seq.iter().map(|&o| names[o as usize].to_string())).collect();
        let probe = Probe::default();
        let log = probe.log.clone();
        catcher.fail_flush.store(false, std::sync::atomic::Ordering::Relaxed);
        let r = catch(|| {
            let style = ProgressStyle::with_template("[{k}] {elapsed_precise}").unwrap().with_key("k", probe.clone());
            let pb = if start_hidden { indicatif::ProgressBar::with_draw_target(Some(10), indicatif::ProgressDrawTarget::hidden()).with_style(style) } else { bar_on(&catcher, Some(10), style) };
            let restyled = std::cell::Cell::new(false);
            let want_now = |pb: &indicatif::ProgressBar| format!("[{} pos={} len={:?} fin={} el={:?} eta={:?} ps={:?}] {}", if restyled.get() { 'V' } else { 'W' }, pb.position(), pb.length(), pb.is_finished(), pb.elapsed(), pb.eta(), pb.per_sec(), indicatif::FormattedDuration(pb.elapsed()));
            let (mut ticks, mut resets) = (0usize, 0usize);
            let mut stale: Option<String> = None;
            for (i, &o) in seq.iter().enumerate() {
                clock::advance_ms(50);
                catcher.take();
                match o {
                    0 => {
                        pb.tick();
                        ticks += 1
                    }
                    1 => {
                        pb.inc(2);
                        ticks += 1
                    }
                    2 => {
                        pb.set_position(7);
                        ticks += 1
                    }
                    3 => {
                        pb.set_length(9);
                        ticks += 1
                    }
                    4 => {
                        pb.reset();
                        resets += 1
                    }
                    5 => pb.finish(),
                    6 => {
                        pb.set_message("x");
                        ticks += 1
                    }
                    7 => pb.suspend(|| clock::advance_ms(2000)),
                    8 => pb.println("log"),
                    10 => catcher.fail_flush.store(true, std::sync::atomic::Ordering::Relaxed),
                    11 => {
                        pb.set_style(ProgressStyle::with_template("[{k}] {elapsed_precise}").unwrap().with_key("k", Probe { log: probe.log.clone(), second: true }));
                        restyled.set(true);
                    }
                    _ => pb.set_draw_target(indicatif::ProgressDrawTarget::term_like(Box::new(catcher.clone()))),
                }
                // the frame this operation painted (if any): last line payload before the right-edge filler
                let painted = catcher.take();
                if painted.len() >= 2 && stale.is_none() {
                    let line = &painted[painted.len() - 2];
                    let want = want_now(&pb);
                    // one frame = one bar line: a second one is a leftover of an earlier frame
                    if painted.iter().filter(|l| l.starts_with("[W") || l.starts_with("[V")).count() > 1 {
                        stale = Some(format!("operation #{i} ({}) painted {} bar lines in one frame: {:?}", names[o as usize], painted.iter().filter(|l| l.starts_with("[W") || l.starts_with("[V")).count(), painted));
                    } else if (line.starts_with("[W") || line.starts_with("[V")) && *line != want {
                        stale = Some(format!("operation #{i} ({}) painted {:?}, the bar's state at that instant is {:?}", names[o as usize], line, want));
                    }
                }
            }
            if pb.is_hidden() {
                pb.set_draw_target(indicatif::ProgressDrawTarget::term_like(Box::new(catcher.clone())));
            }
            let lines = frame_lines(&catcher, &pb);
            let want = want_now(&pb);
            pb.abandon();
            (lines, want, ticks, resets, stale)
        });
        match r {
            Err(p) => stats.violation(Violation { class: format!("panic: {}", panic_class(&p)), config: "custom key".into(), history: hist, detail: p }),
            Ok((lines, want, ticks, resets, stale)) => {
                let l = log.lock().unwrap().clone();
                let got_ticks = l.iter().filter(|e| e.starts_with("tick")).count();
                let got_resets: Vec<&String> = l.iter().filter(|e| e.starts_with("reset")).collect();
                let line = lines.first().cloned().unwrap_or_default();
                if let Some(d) = stale {
                    stats.violation(Violation { class: "frame: a frame painted by an operation does not show the state / elapsed time of that instant".into(), config: "custom key".into(), history: hist, detail: d });
                } else if line != want {
                    stats.violation(Violation { class: "custom key: state passed to write() differs from the getters at draw time".into(), config: "custom key".into(), history: hist, detail: format!("rendered {:?} expected {:?}", line, want) });
                } else if got_ticks != ticks {
                    stats.violation(Violation { class: "custom key: tracker not ticked once per tick of the bar".into(), config: "custom key".into(), history: hist, detail: format!("{got_ticks} tracker ticks for {ticks} bar ticks: {:?}", l) });
                } else if got_resets.len() != resets {
                    stats.violation(Violation { class: "custom key: tracker not reset once per reset()".into(), config: "custom key".into(), history: hist, detail: format!("{} tracker resets for {resets} resets: {:?}", got_resets.len(), l) });
                } else if got_resets.iter().any(|e| *e != "reset pos=0 finished=false") {
                    stats.violation(Violation { class: "custom key: tracker reset does not see the reset state of the bar".into(), config: "custom key".into(), history: hist, detail: format!("{:?}", l) });
                } else {
                    stats.state_outcome(hash_of(&(&line, ticks, resets, start_hidden)), true);
                }
            }
        }
    }
    }
    stats.sample(json!(["template [{eta}]", "pos 999 len Some(1000000) status 0 elapsed 59500 ms prior updates 2"]));
    stats.sample(json!(["template [{k}]", "inc(2)", "reset", "tick", "finish"]));
}

pub fn meta(tier: Tier) -> Meta {
    let _ = tier;
    Meta {
        level: "exploration",
        rule: "every documented key except the geometry/truncation keys (25 keys) alone in a template x 110 position/length pairs incl. 0, length<position, unknown length, 2^53+1, u64::MAX x 3 statuses x 3-5 frozen elapsed times (0.4 s .. 400 d) x 0-2 earlier updates x tick counts; rendered text must equal the public getter at the same frozen instant pushed through the public formatter; plus every sequence of <= 5 (6 thorough) operations from {tick, inc, set_position, set_length, reset, finish, set_message, suspend with a closure that takes 2 s, println, set_draw_target(visible), one failing flush, set_style with another tracker for the same key} on a bar with a recording ProgressTracker and {elapsed_precise}, created visible or hidden: every frame painted by an operation and the final frame equal the getters of that instant, one tracker tick per bar tick, one tracker reset per reset() seeing the reset state; distinct = (key, rendered text); non-trivial = non-zero position or elapsed > 0.4 s".into(),
        assumptions: vec!["virtual clock frozen between the draw and the getter calls, so time-dependent keys are comparable exactly".into(), "percent may be computed from the f32 or the f64 quotient".into()],
        bounds: json!({"keys": KEYS.len() - 3}),
        exhaustive: true,
    }
}

pub fn replay(v: &Value) -> i32 {
    println!("case: {}\nrecorded: {}", v["history"], v["detail"]);
    1
}
