//! C16 — tabs are always expanded before reaching the terminal (HIST).

use crate::barops::{apply, getters, style, BOp, Fin, RefState};
use crate::report::{hash_of, Dfs, Hist, Shard, Stats, Verdict, Violation};
use crate::term::{wrap_rows, Spy};
use crate::util::{catch, panic_class};
use crate::{clock, Meta, Tier};
use indicatif::{ProgressBar, ProgressDrawTarget};
use serde_json::{json, Value};

pub struct C16 {
    /// terminal width (80; 6 = narrower than the default tab width)
    pub w: usize,
    pub tpl0: usize,
    pub initial_tab: Option<usize>,
    /// builder order: 0 = with_style, with_tab_width; 1 = with_tab_width, with_style;
    /// 2 = with_message, with_prefix, with_tab_width, with_style; 3 = with_tab_width, with_message, with_prefix, with_style
    pub order: u8,
    /// the bar is built with_finish(this) first: a finish message with a tab is stored until
    /// finish_using_style() applies it (in the alphabet then)
    pub fin: Option<Fin>,
    /// the bar is a member of a MultiProgress that is hidden during the history and gets the terminal at
    /// the end (`MultiProgress::set_draw_target`), followed by one tick
    pub hidden_multi: bool,
}

impl C16 {
    fn config(&self) -> String {
        let order = ["", " builder order tab-width,style", " builder order message,prefix,tab-width,style", " builder order tab-width,message,prefix,style"][self.order as usize];
        format!("initial_template={} with_tab_width={:?}{order}{}{}", self.tpl0, self.initial_tab, if self.w != 80 { format!(" terminal width {}", self.w) } else { String::new() }, match self.fin { Some(f) => format!(" built with_finish({:?}) first", f), None => String::new() }) + if self.hidden_multi { " member of a MultiProgress that is hidden until the end" } else { "" }
    }
}

impl Hist for C16 {
    type Op = BOp;

    fn alphabet(&self, _p: &[BOp]) -> Vec<BOp> {
        if self.tpl0 == 5 {
            // {wide_msg} with a custom key registered as `msg` (no style round trips: they would carry the key
            // over to the other templates)
            return vec![BOp::Tick, BOp::Msg("m\tn"), BOp::Msg("plain"), BOp::Msg("\t\t"), BOp::TabWidth(0), BOp::TabWidth(2), BOp::TabWidth(8), BOp::Style(5), BOp::Style(0), BOp::Reset, BOp::FinishMsg("f\t")];
        }
        vec![
            BOp::Tick,
            BOp::Msg("m\tn"),
            BOp::Msg("plain"),
            BOp::Prefix("\tp"),
            BOp::TabWidth(0),
            BOp::TabWidth(2),
            BOp::TabWidth(8),
            BOp::Style(0),
            BOp::Style(1),
            BOp::Style(2),
            BOp::Style(4),
            BOp::StyleRoundTrip,
            BOp::StyleSave,
            BOp::StyleRestore,
            BOp::Reset,
            BOp::FinishMsg("f\t"),
            BOp::Msg("\t\t"),
        ]
        .into_iter()
        .chain(self.fin.map(|_| BOp::FinishUsingStyle))
        .collect()
    }

    fn run(&self, hist: &[BOp], stats: &mut Stats) -> Verdict {
        clock::reset();
        let spy = Spy::new(self.w, 40, false);
        let mp = self.hidden_multi.then(|| indicatif::MultiProgress::with_draw_target(ProgressDrawTarget::hidden()));
        let mut pb = match mp.as_ref() {
            Some(m) => m.add(ProgressBar::with_draw_target(Some(5), ProgressDrawTarget::hidden())),
            None => ProgressBar::with_draw_target(Some(5), ProgressDrawTarget::term_like(spy.boxed())),
        };
        let mut rf = RefState::new(Some(5), Fin::AndClear, self.tpl0);
        let t = self.initial_tab.unwrap_or(8);
        rf.tab_width = t;
        rf.term_w = self.w;
        if let Some(f) = self.fin {
            pb = pb.with_finish(f.real());
            rf.on_finish = f;
        }
        match self.order {
            0 => {
                pb = pb.with_style(style(self.tpl0));
                if self.initial_tab.is_some() {
                    pb = pb.with_tab_width(t);
                }
            }
            1 => pb = pb.with_tab_width(t).with_style(style(self.tpl0)),
            2 => {
                pb = pb.with_message("w\tm").with_prefix("q\t").with_tab_width(t).with_style(style(self.tpl0));
                rf.msg = "w\tm".into();
                rf.prefix = "q\t".into();
            }
            _ => {
                pb = pb.with_tab_width(t).with_message("w\tm").with_prefix("q\t").with_style(style(self.tpl0));
                rf.msg = "w\tm".into();
                rf.prefix = "q\t".into();
            }
        }
        let shown: Vec<String> = hist.iter().map(|o| format!("{:?}", o)).collect();
        let mut frame: Option<Vec<String>> = None;
        // the copy of the style kept by StyleSave, with the template it had
        let mut saved: Option<(indicatif::ProgressStyle, usize)> = None;
        for (i, op) in hist.iter().enumerate() {
            clock::advance_ms(1000);
            match op {
                BOp::StyleSave => saved = Some((pb.style(), rf.tpl)),
                BOp::StyleRestore => {
                    if let Some((s, t)) = saved.clone() {
                        pb.set_style(s);
                        rf.tpl = t;
                    }
                }
                _ => {}
            }
            if let Err(p) = catch(|| apply(&pb, op)) {
                let _ = catch(move || drop(pb));
                return Verdict::Bad(Violation { class: format!("panic: {}", panic_class(&p)), config: self.config(), history: shown[..=i].to_vec(), detail: p });
            }
            rf.step(op);
            if RefState::draws(op) {
                frame = Some(rf.render());
            }
        }
        if let Some(m) = mp.as_ref() {
            let r = catch(|| {
                m.set_draw_target(ProgressDrawTarget::term_like(spy.boxed()));
                pb.tick();
            });
            if let Err(p) = r {
                let _ = catch(move || drop(pb));
                return Verdict::Bad(Violation { class: format!("panic: {}", panic_class(&p)), config: self.config(), history: shown.clone(), detail: p });
            }
            frame = Some(rf.render());
        }
        let g = catch(|| getters(&pb));
        let (doc, tab) = {
            let st = spy.st();
            (st.model.doc(), st.tab_seen)
        };
        let _ = catch(move || drop(pb));
        let bad = |class: &str, detail: String| Verdict::Bad(Violation { class: class.into(), config: self.config(), history: shown.clone(), detail });
        if tab {
            return bad("tab: a TAB character reached the terminal", format!("document {:?}", doc));
        }
        match g {
            Err(p) => return bad(&format!("panic in getter: {}", panic_class(&p)), p),
            Ok(g) => {
                let want = rf.getters();
                if g.msg != want.msg || g.prefix != want.prefix {
                    return bad("getter: message()/prefix() is not the text expanded with the current tab width", format!("got {:?}/{:?}, expected {:?}/{:?}", g.msg, g.prefix, want.msg, want.prefix));
                }
            }
        }
        if let Some(f) = frame {
            let mut want: Vec<String> = f.iter().flat_map(|l| wrap_rows(l, self.w)).collect();
            while want.last().map_or(false, |s| s.is_empty()) {
                want.pop();
            }
            if doc != want {
                return bad("frame: drawn text is not the reference expansion with the current tab width", format!("expected {:?}, terminal shows {:?}", want, doc));
            }
        }
        stats.outcomes.insert(hash_of(&doc));
        Verdict::Ok { hash: hash_of(&(&doc, rf.tab_width, rf.tpl, &rf.msg, &rf.prefix, rf.finished)), nontrivial: doc.iter().any(|r| r.contains("  ") || r.contains('|')) }
    }
}

fn configs(tier: Tier) -> Vec<(C16, usize)> {
    let d = if tier == Tier::Quick { 5 } else { 6 };
    let mut v = vec![(C16 { w: 80, tpl0: 2, initial_tab: None, order: 0, fin: None, hidden_multi: false }, d), (C16 { w: 80, tpl0: 0, initial_tab: Some(4), order: 0, fin: None, hidden_multi: false }, d - 1), (C16 { w: 80, tpl0: 1, initial_tab: Some(0), order: 0, fin: None, hidden_multi: false }, d - 1)];
    // a terminal narrower than the tab width
    v.push((C16 { w: 6, tpl0: 1, initial_tab: None, order: 0, fin: None, hidden_multi: false }, d - 2));
    v.push((C16 { w: 3, tpl0: 0, initial_tab: Some(4), order: 0, fin: None, hidden_multi: false }, d - 2));
    // the other builder orders, every template, shallower
    for order in 1..=3u8 {
        for tpl0 in 0..3 {
            for tab in [0usize, 4] {
                v.push((C16 { w: 80, tpl0, initial_tab: Some(tab), order, fin: None, hidden_multi: false }, d - 2));
            }
        }
    }
    v.push((C16 { w: 80, tpl0: 5, initial_tab: None, order: 0, fin: None, hidden_multi: false }, d - 1));
    v.push((C16 { w: 12, tpl0: 5, initial_tab: Some(2), order: 1, fin: None, hidden_multi: false }, d - 2));
    // a member of a hidden MultiProgress that is shown at the end
    v.push((C16 { w: 80, tpl0: 1, initial_tab: None, order: 0, fin: None, hidden_multi: true }, d - 1));
    v.push((C16 { w: 80, tpl0: 0, initial_tab: Some(4), order: 1, fin: None, hidden_multi: true }, d - 2));
    // a finish message with a tab, stored by with_finish before anything else and applied later
    v.push((C16 { w: 80, tpl0: 2, initial_tab: None, order: 0, fin: Some(Fin::WithMessage), hidden_multi: false }, d - 1));
    v.push((C16 { w: 80, tpl0: 0, initial_tab: Some(4), order: 1, fin: Some(Fin::AbandonWithMessage), hidden_multi: false }, d - 2));
    v
}

pub fn run(tier: Tier, shard: Shard, stats: &mut Stats) {
    for (cfg, depth) in configs(tier) {
        Dfs::new(&cfg, depth, shard, 2).explore(stats);
    }
}

pub fn meta(tier: Tier) -> Meta {
    Meta {
        level: "model_checking",
        rule: "stateless DFS over all orders of set_tab_width(0|2|8) / set_style (literal tab, custom key writing a tab, prefix|msg, literal tabs around a brace that stands for itself) / style round trip through pb.style().template(..) / a copy of the bar's style taken earlier and installed again later / set_message / set_prefix / finish_with_message / tick to the stated depth, from three initial configurations (with and without with_tab_width) plus 18 configurations built in the other builder orders (with_tab_width before with_style, with_message/with_prefix before or after with_tab_width); after every operation: no TAB byte reached the terminal, the document equals the reference expansion with the current width, message()/prefix() return the expanded text; non-trivial = an expanded tab or a separator is on screen".into(),
        assumptions: vec!["terminal model 80x12; +1 s virtual time between operations".into()],
        bounds: json!({"configurations": configs(tier).iter().map(|(c, d)| json!({"config": c.config(), "depth": d, "alphabet": 17})).collect::<Vec<_>>()}),
        exhaustive: true,
    }
}

pub fn replay(v: &Value) -> i32 {
    let hist: Vec<String> = v["history"].as_array().map(|a| a.iter().map(|s| s.as_str().unwrap_or("").to_string()).collect()).unwrap_or_default();
    for t in [Tier::Quick, Tier::Thorough] {
        for (cfg, _) in configs(t) {
            if cfg.config() == v["config"].as_str().unwrap_or("") {
                return crate::replay_hist(&cfg, &hist, "C16");
            }
        }
    }
    2
}
