//! Panic capture and small helpers shared by the property modules.

use std::cell::RefCell;
use std::panic::{catch_unwind, AssertUnwindSafe};

thread_local! {
    static LAST_PANIC: RefCell<Option<String>> = const { RefCell::new(None) };
}

/// Install a hook that records the panic message (with location) instead of printing it.
pub fn silence_panics() {
    std::panic::set_hook(Box::new(|info| {
        let msg = if let Some(s) = info.payload().downcast_ref::<&str>() {
            s.to_string()
        } else if let Some(s) = info.payload().downcast_ref::<String>() {
            s.clone()
        } else {
            "<non-string panic payload>".to_string()
        };
        let loc = info
            .location()
            .map(|l| format!("{}:{}", l.file().rsplit('/').next().unwrap_or(""), l.line()))
            .unwrap_or_default();
        LAST_PANIC.with(|p| *p.borrow_mut() = Some(format!("{msg} @ {loc}")));
    }));
}

/// Run `f`; a panic is returned as its message.
pub fn catch<T>(f: impl FnOnce() -> T) -> Result<T, String> {
    match catch_unwind(AssertUnwindSafe(f)) {
        Ok(v) => Ok(v),
        Err(_) => Err(LAST_PANIC
            .with(|p| p.borrow_mut().take())
            .unwrap_or_else(|| "<panic>".to_string())),
    }
}

/// Panic message with line numbers removed (stable class keys across unrelated edits).
pub fn panic_class(msg: &str) -> String {
    let (m, loc) = msg.rsplit_once(" @ ").unwrap_or((msg, ""));
    let file = loc.split(':').next().unwrap_or("");
    let m: String = m.chars().take(60).collect();
    format!("{m} @ {file}")
}

pub fn walltime_deadline(secs: f64) -> f64 {
    crate::clock::wall_s() + secs
}
