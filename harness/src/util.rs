//! Panic capture and small helpers shared by the property modules.

use std::cell::RefCell;
use std::panic::{catch_unwind, AssertUnwindSafe};

thread_local! {
    static LAST_PANIC: RefCell<Option<String>> = const { RefCell::new(None) };
    /// nesting depth of `catch` on this thread: a panic at depth 0 is the harness's own and ends the shard
    static CATCHING: std::cell::Cell<u32> = const { std::cell::Cell::new(0) };
}

/// Install a hook that records the panic message (with location) instead of printing it.
pub fn silence_panics() {
    std::panic::set_hook(Box::new(|info| {
        let msg = if let Some(s) = info.payload().downcast_ref::<&str>() {
            s.to_string()
        } else if let Some(s) = info.payload().downcast_ref::<String>() {
            s.clone()
        } else {
            "<non-string panic payload>".to_string()
        };
        let loc = info
            .location()
            .map(|l| format!("{}:{}", l.file().rsplit('/').next().unwrap_or(""), l.line()))
            .unwrap_or_default();
        if std::env::var("VCHECK_TRACE").is_ok() || CATCHING.with(|c| c.get()) == 0 {
            // (outside `catch`: a slip of the harness itself, reported by the parent as a machinery error)
            eprintln!("panic: {msg} @ {loc}");
        }
        LAST_PANIC.with(|p| *p.borrow_mut() = Some(format!("{msg} @ {loc}")));
    }));
}

/// Run `f`; a panic is returned as its message.
pub fn catch<T>(f: impl FnOnce() -> T) -> Result<T, String> {
    CATCHING.with(|c| c.set(c.get() + 1));
    let r = catch_unwind(AssertUnwindSafe(f));
    CATCHING.with(|c| c.set(c.get() - 1));
    match r {
        Ok(v) => Ok(v),
        Err(_) => Err(LAST_PANIC
            .with(|p| p.borrow_mut().take())
            .unwrap_or_else(|| "<panic>".to_string())),
    }
}

/// Panic message with line numbers removed (stable class keys across unrelated edits).
pub fn panic_class(msg: &str) -> String {
    let (m, loc) = msg.rsplit_once(" @ ").unwrap_or((msg, ""));
    let file = loc.split(':').next().unwrap_or("");
    let m: String = m.chars().take(60).collect();
    format!("{m} @ {file}")
}

pub fn walltime_deadline(secs: f64) -> f64 {
    crate::clock::wall_s() + secs
}

// ---------------------------------------------------------------------------------------------
// Watchdog: an execution that never returns (deadlock after an injected fault, ...) must become a
// reported violation instead of a check that hangs.

use std::sync::Mutex;

pub struct Watch {
    pub deadline: f64,
    pub property: String,
    pub class: String,
    pub config: String,
    pub history: Vec<String>,
}

static WATCH: Mutex<Option<Watch>> = Mutex::new(None);
static OUT_PATH: Mutex<Option<String>> = Mutex::new(None);

pub fn watchdog_start(out_path: &str) {
    *OUT_PATH.lock().unwrap() = Some(out_path.to_string());
    abort_guard_install();
    std::thread::spawn(|| loop {
        std::thread::sleep(std::time::Duration::from_millis(200));
        let expired = {
            let g = WATCH.lock().unwrap();
            match g.as_ref() {
                Some(w) if crate::clock::wall_s() > w.deadline => Some(serde_json::json!({
                    "evaluations": 1, "transitions": 1, "pruned": 0, "vt_compares": 0, "caps_hit": [], "samples": [],
                    "class_counts": {w.class.clone(): 1},
                    "witnesses": [{"property": w.property, "class": w.class, "config": w.config, "history": w.history, "detail": "the call did not return within the watchdog limit (all other results of this shard are lost)"}],
                    "machinery_errors": [], "extra": {}, "notes": ["a shard was ended by the watchdog: its other counts are missing from the totals"], "max_depth": 0,
                    "states": [], "nontrivial": [], "outcomes": []
                })),
                _ => None,
            }
        };
        if let Some(js) = expired {
            if let Some(p) = OUT_PATH.lock().unwrap().as_ref() {
                let _ = std::fs::write(p, serde_json::to_vec(&js).unwrap());
            }
            std::process::exit(0);
        }
    });
}

/// SIGABRT (a second panic while the first one unwinds, a panic in a destructor during cleanup):
/// the execution in flight is reported as a violation instead of losing the shard.
extern "C" fn on_abort(_: libc::c_int) {
    let Ok(g) = WATCH.try_lock() else { return };
    let Some(w) = g.as_ref() else { return };
    let class = "abort: the process aborts inside this history (a panic while another panic unwinds, or a panic in a destructor during cleanup)";
    let out = OUT_PATH.try_lock().ok().and_then(|p| p.clone());
    match out {
        Some(p) => {
            let js = serde_json::json!({
                "evaluations": 1, "transitions": 1, "pruned": 0, "vt_compares": 0, "caps_hit": [], "samples": [],
                "class_counts": {class: 1},
                "witnesses": [{"property": w.property, "class": class, "config": w.config, "history": w.history, "detail": "SIGABRT while executing this history (all other results of this shard are lost)"}],
                "machinery_errors": [], "extra": {}, "notes": ["a shard aborted inside the code under test: its other counts are missing from the totals"], "max_depth": 0,
                "states": [], "nontrivial": [], "outcomes": []
            });
            let _ = std::fs::write(p, serde_json::to_vec(&js).unwrap());
            unsafe { libc::_exit(0) }
        }
        None => {
            println!("VIOLATION class={class}");
            println!("VIOLATION property={} replay=(this file)", w.property);
            unsafe { libc::_exit(1) }
        }
    }
}

/// Report an abort inside a watched execution as a violation (shards and replays).
pub fn abort_guard_install() {
    unsafe {
        libc::signal(libc::SIGABRT, on_abort as extern "C" fn(libc::c_int) as libc::sighandler_t);
    }
}

/// Arm the watchdog for the execution about to start.
pub fn watch(property: &str, class: &str, config: &str, history: Vec<String>, secs: f64) {
    *WATCH.lock().unwrap() = Some(Watch { deadline: crate::clock::wall_s() + secs, property: property.into(), class: class.into(), config: config.into(), history });
}

pub fn unwatch() {
    *WATCH.lock().unwrap() = None;
}
