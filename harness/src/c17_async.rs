//! C17, async adaptors: tokio AsyncRead / AsyncWrite / AsyncBufRead / AsyncSeek and futures Stream,
//! polled by hand with a no-op waker; every poll's answer is scripted (incl. Pending).

use crate::c17::Ans;
use crate::report::{hash_of, Shard, Stats, Violation};
use crate::util::{catch, panic_class};
use crate::{clock, Tier};
use indicatif::{ProgressBar, ProgressDrawTarget, ProgressFinish};
use serde_json::json;
use std::cell::RefCell;
use std::io;
use std::pin::Pin;
use std::rc::Rc;
use std::task::{Context, Poll, Waker};
use tokio::io::{AsyncBufRead, AsyncRead, AsyncSeek, AsyncWrite, ReadBuf};

#[derive(Default)]
struct Shared {
    calls: usize,
    script: Vec<(usize, Ans)>,
    log: Vec<String>,
    consumed: usize,
    written: usize,
}

impl Shared {
    fn answer(&mut self) -> Ans {
        let a = self.script.iter().find(|(i, _)| *i == self.calls).map(|x| x.1).unwrap_or(Ans::Full);
        self.calls += 1;
        a
    }
}

struct ASrc {
    data: Vec<u8>,
    pos: usize,
    buffered: usize,
    pending_seek: Option<u64>,
    sh: Rc<RefCell<Shared>>,
}

impl ASrc {
    fn new(script: &[(usize, Ans)]) -> (ASrc, Rc<RefCell<Shared>>) {
        let sh = Rc::new(RefCell::new(Shared { script: script.to_vec(), ..Default::default() }));
        (ASrc { data: (0..25u8).map(|i| b'a' + i).collect(), pos: 0, buffered: 0, pending_seek: None, sh: sh.clone() }, sh)
    }
}

fn fail() -> io::Error {
    io::Error::new(io::ErrorKind::Other, "scripted failure")
}

impl AsyncRead for ASrc {
    fn poll_read(mut self: Pin<&mut Self>, _: &mut Context<'_>, buf: &mut ReadBuf<'_>) -> Poll<io::Result<()>> {
        let a = self.sh.borrow_mut().answer();
        let rem = self.data.len() - self.pos;
        let n = match a {
            Ans::Full => buf.remaining().min(rem),
            Ans::One => buf.remaining().min(rem).min(1),
            Ans::Zero => 0,
            Ans::Pending | Ans::Intr => {
                self.sh.borrow_mut().log.push("poll_read -> Pending".into());
                return Poll::Pending;
            }
            Ans::Fail => {
                self.sh.borrow_mut().log.push("poll_read -> Err".into());
                return Poll::Ready(Err(fail()));
            }
        };
        let p = self.pos;
        buf.put_slice(&self.data[p..p + n]);
        self.pos += n;
        let mut sh = self.sh.borrow_mut();
        sh.consumed += n;
        sh.log.push(format!("poll_read -> {n}"));
        Poll::Ready(Ok(()))
    }
}

impl AsyncBufRead for ASrc {
    fn poll_fill_buf(self: Pin<&mut Self>, _: &mut Context<'_>) -> Poll<io::Result<&[u8]>> {
        let this = self.get_mut();
        if this.buffered == 0 {
            let a = this.sh.borrow_mut().answer();
            let rem = this.data.len() - this.pos;
            this.buffered = match a {
                Ans::Full => rem.min(5),
                Ans::One => rem.min(1),
                Ans::Zero => 0,
                Ans::Pending | Ans::Intr => {
                    this.sh.borrow_mut().log.push("poll_fill_buf -> Pending".into());
                    return Poll::Pending;
                }
                Ans::Fail => {
                    this.sh.borrow_mut().log.push("poll_fill_buf -> Err".into());
                    return Poll::Ready(Err(fail()));
                }
            };
        }
        this.sh.borrow_mut().log.push(format!("poll_fill_buf -> {}", this.buffered));
        Poll::Ready(Ok(&this.data[this.pos..this.pos + this.buffered]))
    }

    fn consume(mut self: Pin<&mut Self>, amt: usize) {
        let amt = amt.min(self.buffered);
        self.pos += amt;
        self.buffered -= amt;
        let mut sh = self.sh.borrow_mut();
        sh.consumed += amt;
        sh.log.push(format!("consume({amt})"));
    }
}

impl AsyncWrite for ASrc {
    fn poll_write(self: Pin<&mut Self>, _: &mut Context<'_>, buf: &[u8]) -> Poll<io::Result<usize>> {
        let mut sh = self.sh.borrow_mut();
        let a = sh.answer();
        let n = match a {
            Ans::Full => buf.len(),
            Ans::One => buf.len().min(1),
            Ans::Zero => 0,
            Ans::Pending | Ans::Intr => {
                sh.log.push("poll_write -> Pending".into());
                return Poll::Pending;
            }
            Ans::Fail => {
                sh.log.push("poll_write -> Err".into());
                return Poll::Ready(Err(fail()));
            }
        };
        sh.written += n;
        sh.log.push(format!("poll_write -> {n}"));
        Poll::Ready(Ok(n))
    }
    fn poll_flush(self: Pin<&mut Self>, _: &mut Context<'_>) -> Poll<io::Result<()>> {
        let mut sh = self.sh.borrow_mut();
        let a = sh.answer();
        sh.log.push(format!("poll_flush -> {:?}", a));
        match a {
            Ans::Pending | Ans::Intr => Poll::Pending,
            Ans::Fail => Poll::Ready(Err(fail())),
            _ => Poll::Ready(Ok(())),
        }
    }
    fn poll_shutdown(self: Pin<&mut Self>, _: &mut Context<'_>) -> Poll<io::Result<()>> {
        let mut sh = self.sh.borrow_mut();
        let a = sh.answer();
        sh.log.push(format!("poll_shutdown -> {:?}", a));
        match a {
            Ans::Pending | Ans::Intr => Poll::Pending,
            Ans::Fail => Poll::Ready(Err(fail())),
            _ => Poll::Ready(Ok(())),
        }
    }
}

impl AsyncSeek for ASrc {
    fn start_seek(mut self: Pin<&mut Self>, position: io::SeekFrom) -> io::Result<()> {
        let np = match position {
            io::SeekFrom::Start(p) => p as i64,
            io::SeekFrom::Current(d) => self.pos as i64 + d,
            io::SeekFrom::End(d) => self.data.len() as i64 + d,
        };
        self.sh.borrow_mut().log.push(format!("start_seek({:?})", position));
        if np < 0 {
            return Err(io::Error::new(io::ErrorKind::InvalidInput, "negative"));
        }
        self.pending_seek = Some(np as u64);
        Ok(())
    }
    fn poll_complete(mut self: Pin<&mut Self>, _: &mut Context<'_>) -> Poll<io::Result<u64>> {
        let a = self.sh.borrow_mut().answer();
        match a {
            Ans::Pending | Ans::Intr => {
                self.sh.borrow_mut().log.push("poll_complete -> Pending".into());
                Poll::Pending
            }
            Ans::Fail => {
                self.sh.borrow_mut().log.push("poll_complete -> Err".into());
                Poll::Ready(Err(fail()))
            }
            _ => {
                if let Some(p) = self.pending_seek.take() {
                    self.pos = (p as usize).min(self.data.len());
                    self.buffered = 0;
                }
                let p = self.pos as u64;
                self.sh.borrow_mut().log.push(format!("poll_complete -> {p}"));
                Poll::Ready(Ok(p))
            }
        }
    }
}

#[derive(Clone, Copy, Debug, PartialEq)]
enum ACall {
    Read(usize),
    ReadAfterHeader(usize),
    Write(usize),
    Flush,
    Shutdown,
    FillBuf,
    Consume(usize),
    ConsumeAll,
    Seek(u64),
    Complete,
}

fn a_call<T: AsyncRead + AsyncWrite + AsyncBufRead + AsyncSeek + Unpin>(t: &mut T, c: ACall, last_fill: &mut usize) -> String {
    let waker = Waker::noop();
    let mut cx = Context::from_waker(waker);
    match c {
        ACall::Read(n) => {
            let mut store = vec![0u8; n];
            let mut rb = ReadBuf::new(&mut store);
            match Pin::new(t).poll_read(&mut cx, &mut rb) {
                Poll::Pending => "Pending".into(),
                Poll::Ready(Ok(())) => format!("Ok {:?}", rb.filled()),
                Poll::Ready(Err(e)) => format!("Err({:?})", e.kind()),
            }
        }
        ACall::ReadAfterHeader(n) => {
            // the caller's buffer already holds two bytes (read_exact over short reads, a header)
            let mut store = vec![0u8; n + 2];
            let mut rb = ReadBuf::new(&mut store);
            rb.put_slice(b"hd");
            match Pin::new(t).poll_read(&mut cx, &mut rb) {
                Poll::Pending => "Pending".into(),
                Poll::Ready(Ok(())) => format!("Ok {:?}", &rb.filled()[2..]),
                Poll::Ready(Err(e)) => format!("Err({:?})", e.kind()),
            }
        }
        ACall::Write(n) => match Pin::new(t).poll_write(&mut cx, &b"0123456789"[..n]) {
            Poll::Pending => "Pending".into(),
            Poll::Ready(Ok(k)) => format!("Ok({k})"),
            Poll::Ready(Err(e)) => format!("Err({:?})", e.kind()),
        },
        ACall::Flush => match Pin::new(t).poll_flush(&mut cx) {
            Poll::Pending => "Pending".into(),
            Poll::Ready(Ok(())) => "Ok".into(),
            Poll::Ready(Err(e)) => format!("Err({:?})", e.kind()),
        },
        ACall::Shutdown => match Pin::new(t).poll_shutdown(&mut cx) {
            Poll::Pending => "Pending".into(),
            Poll::Ready(Ok(())) => "Ok".into(),
            Poll::Ready(Err(e)) => format!("Err({:?})", e.kind()),
        },
        ACall::FillBuf => match Pin::new(t).poll_fill_buf(&mut cx) {
            Poll::Pending => "Pending".into(),
            Poll::Ready(Ok(b)) => {
                *last_fill = b.len();
                format!("Ok {:?}", b)
            }
            Poll::Ready(Err(e)) => format!("Err({:?})", e.kind()),
        },
        ACall::Consume(k) => {
            let k = k.min(*last_fill);
            Pin::new(t).consume(k);
            *last_fill -= k;
            format!("consumed {k}")
        }
        ACall::ConsumeAll => {
            let k = *last_fill;
            Pin::new(t).consume(k);
            *last_fill = 0;
            format!("consumed {k}")
        }
        ACall::Seek(p) => match Pin::new(t).start_seek(io::SeekFrom::Start(p)) {
            Ok(()) => "Ok".into(),
            Err(e) => format!("Err({:?})", e.kind()),
        },
        ACall::Complete => match Pin::new(t).poll_complete(&mut cx) {
            Poll::Pending => "Pending".into(),
            Poll::Ready(Ok(p)) => format!("Ok({p})"),
            Poll::Ready(Err(e)) => format!("Err({:?})", e.kind()),
        },
    }
}

fn diff_async(which: &str, calls: &[ACall], script: &[(usize, Ans)], stats: &mut Stats) -> Result<(u64, bool), (String, String)> {
    clock::reset();
    let (mut bare, sh1) = ASrc::new(script);
    let (inner, sh2) = ASrc::new(script);
    let pb = ProgressBar::with_draw_target(Some(100), ProgressDrawTarget::hidden());
    let mut wrapped = if which == "AsyncWrite" { pb.wrap_async_write(inner) } else { pb.wrap_async_read(inner) };
    let (mut l1, mut l2) = (0usize, 0usize);
    let mut model = 0u64;
    let mut out = vec![];
    for (i, &c) in calls.iter().enumerate() {
        clock::advance_ms(2);
        let r1 = a_call(&mut bare, c, &mut l1);
        let (c0, w0) = (sh2.borrow().consumed as u64, sh2.borrow().written as u64);
        let r2 = a_call(&mut wrapped, c, &mut l2);
        if r1 != r2 {
            return Err(("transparency: a wrapped poll returns something different from the bare object".into(), format!("call #{i} {:?}: bare {r1}, wrapped {r2}", c)));
        }
        if sh1.borrow().log != sh2.borrow().log {
            return Err(("transparency: the inner object sees different calls when wrapped".into(), format!("after call #{i} {:?}: {:?} vs {:?}", c, sh1.borrow().log, sh2.borrow().log)));
        }
        let moved = (sh2.borrow().consumed as u64 - c0) + (sh2.borrow().written as u64 - w0);
        let pos = pb.position();
        if matches!(c, ACall::Seek(_) | ACall::Complete) {
            // an async seeker is not among the adaptors whose position the statement defines: observation only
            if pos != model {
                stats.bump("observation_async_seek_moves_position", 1);
                model = pos;
            } else if r2.starts_with("Ok(") && c == ACall::Complete {
                stats.bump("observation_async_seek_leaves_position", 1);
            }
        } else {
            if pos != model + moved {
                let class = if matches!(c, ACall::FillBuf | ACall::Consume(_) | ACall::ConsumeAll) { "count: buffered async reads are not counted by the bytes consumed" } else { "count: position did not advance by exactly the bytes transferred" };
                return Err((class.into(), format!("call #{i} {:?} -> {r2}: position {pos}, expected {}", c, model + moved)));
            }
            model = pos;
        }
        out.push(r2);
    }
    Ok((hash_of(&(which, &out)), model > 0))
}

struct SStream {
    items: Vec<Option<Option<u8>>>, // None = Pending, Some(x) = Ready(x)
    i: usize,
}

impl futures_core::Stream for SStream {
    type Item = u8;
    fn poll_next(mut self: Pin<&mut Self>, _: &mut Context<'_>) -> Poll<Option<u8>> {
        let r = self.items.get(self.i).copied().unwrap_or(Some(None));
        self.i += 1;
        match r {
            None => Poll::Pending,
            Some(x) => Poll::Ready(x),
        }
    }
}

fn fin(i: usize) -> ProgressFinish {
    match i {
        0 => ProgressFinish::AndLeave,
        1 => ProgressFinish::AndClear,
        2 => ProgressFinish::WithMessage("fin".into()),
        3 => ProgressFinish::Abandon,
        _ => ProgressFinish::AbandonWithMessage("abd".into()),
    }
}

pub fn run(tier: Tier, shard: Shard, stats: &mut Stats, case: &mut u64) {
    let depth = if tier == Tier::Quick { 3 } else { 4 };
    let families: Vec<(&str, Vec<ACall>)> = vec![
        ("AsyncRead", vec![ACall::Read(3), ACall::Read(0), ACall::Read(30), ACall::ReadAfterHeader(3)]),
        ("AsyncWrite", vec![ACall::Write(3), ACall::Write(0), ACall::Flush, ACall::Shutdown]),
        ("AsyncBufRead", vec![ACall::FillBuf, ACall::Consume(0), ACall::Consume(3), ACall::ConsumeAll, ACall::Read(3)]),
        ("AsyncSeek", vec![ACall::Seek(7), ACall::Complete, ACall::Read(3)]),
    ];
    let answers = [Ans::One, Ans::Zero, Ans::Pending, Ans::Fail];
    for (name, alpha) in &families {
        let mut all: Vec<Vec<ACall>> = vec![];
        let mut cur: Vec<Vec<ACall>> = vec![vec![]];
        for _ in 0..depth {
            let mut nx = vec![];
            for c in &cur {
                for a in alpha {
                    let mut d = c.clone();
                    d.push(*a);
                    nx.push(d);
                }
            }
            all.extend(nx.iter().cloned());
            cur = nx;
        }
        let mut scripts: Vec<Vec<(usize, Ans)>> = vec![vec![]];
        for i in 0..4 {
            for a in answers {
                scripts.push(vec![(i, a)]);
            }
        }
        for i in 0..4 {
            for j in i + 1..4 {
                for a in answers {
                    for b in answers {
                        scripts.push(vec![(i, a), (j, b)]);
                    }
                }
            }
        }
        for calls in &all {
            for script in &scripts {
                *case += 1;
                if !shard.owns(*case) {
                    continue;
                }
                stats.evaluations += 1;
                stats.transitions += calls.len() as u64;
                let hist = vec![name.to_string(), format!("polls {:?}", calls), format!("script {:?}", script)];
                match catch(|| {
                    let mut scratch = Stats::default();
                    let r = diff_async(name, calls, script, &mut scratch);
                    (r, scratch.extra)
                }) {
                    Err(p) => stats.violation(Violation { class: format!("panic: {}", panic_class(&p)), config: name.to_string(), history: hist, detail: p }),
                    Ok((r, extra)) => {
                        for (k, v) in extra {
                            stats.bump(&k, v);
                        }
                        match r {
                            Err((class, detail)) => stats.violation(Violation { class: format!("{name}: {class}"), config: name.to_string(), history: hist, detail }),
                            Ok((h, nt)) => stats.state_outcome(h, nt && !script.is_empty()),
                        }
                    }
                }
            }
        }
    }
    // streams: items with Pending answers, exhausted once, polled again afterwards
    let shapes: Vec<Vec<Option<Option<u8>>>> = vec![
        vec![Some(None)],
        vec![Some(Some(1)), Some(None)],
        vec![None, Some(Some(1)), None, Some(Some(2)), Some(None), Some(None)],
        vec![Some(Some(1)), Some(Some(2)), Some(Some(3)), None, Some(None), None, Some(None)],
    ];
    for shape in &shapes {
        for f in 0..5usize {
            for polls in 1..=shape.len() + 1 {
                *case += 1;
                if !shard.owns(*case) {
                    continue;
                }
                stats.evaluations += 1;
                stats.transitions += polls as u64;
                let hist = vec!["Stream".to_string(), format!("inner answers {:?}", shape), format!("on_finish #{f}"), format!("{polls} polls")];
                let r = catch(|| -> Result<(u64, bool), (String, String)> {
                    use futures_core::Stream;
                    clock::reset();
                    let pb = ProgressBar::with_draw_target(Some(10), ProgressDrawTarget::hidden()).with_finish(fin(f)).with_message("msg");
                    let mut bare = SStream { items: shape.clone(), i: 0 };
                    let mut wrapped = pb.wrap_stream(SStream { items: shape.clone(), i: 0 });
                    let waker = Waker::noop();
                    let mut cx = Context::from_waker(waker);
                    let (mut model, mut finished) = (0u64, false);
                    for k in 0..polls {
                        clock::advance_ms(2);
                        let a = Pin::new(&mut bare).poll_next(&mut cx);
                        let b = Pin::new(&mut wrapped).poll_next(&mut cx);
                        if format!("{:?}", a) != format!("{:?}", b) {
                            return Err(("transparency: the wrapped stream yields something different".into(), format!("poll #{k}: {:?} vs {:?}", a, b)));
                        }
                        match b {
                            Poll::Ready(Some(_)) => model += 1,
                            Poll::Ready(None) => {
                                if !finished && f <= 2 {
                                    model = 10;
                                }
                                finished = true;
                            }
                            Poll::Pending => {}
                        }
                        if pb.position() != model {
                            return Err(("count: stream position did not advance by exactly the items handed over (or finish did not set it)".into(), format!("poll #{k}: position {}, expected {model}", pb.position())));
                        }
                        if pb.is_finished() != finished {
                            return Err(("finish: stream exhaustion and is_finished() disagree".into(), format!("poll #{k}: is_finished {}", pb.is_finished())));
                        }
                    }
                    Ok((hash_of(&(shape, f, polls)), model > 0))
                });
                match r {
                    Err(p) => stats.violation(Violation { class: format!("panic: {}", panic_class(&p)), config: "Stream".into(), history: hist, detail: p }),
                    Ok(Err((class, detail))) => stats.violation(Violation { class: format!("Stream: {class}"), config: "Stream".into(), history: hist, detail }),
                    Ok(Ok((h, nt))) => stats.state_outcome(h, nt),
                }
            }
        }
    }
    stats.sample(json!(["AsyncBufRead", "polls [FillBuf, FillBuf, Consume(3)]", "script [(0, Pending)]"]));
}
