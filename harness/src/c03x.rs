//! C03 — printed lines survive a change of the MultiProgress draw target (two terminals).
//!
//! Histories over {println, add+tick, finish+drop the first live bar, tick, switch to terminal T / U}.
//! Oracle: on each terminal the lines printed while it was the target are all present, once, in order
//! (C03); after an operation that draws, every live bar is on the current terminal, once, in order, below
//! the printed lines (C02); a bar that finished visibly and was dropped keeps its final rendering on the
//! terminal it was painted on until a line is printed there (C04).

use crate::report::{hash_of, Dfs, Hist, Shard, Stats, Verdict, Violation};
use crate::term::Spy;
use crate::util::{catch, panic_class};
use crate::{clock, Tier};
use indicatif::{MultiProgress, ProgressBar, ProgressDrawTarget, ProgressFinish, ProgressStyle};

#[derive(Clone, Debug, PartialEq)]
pub enum Op {
    Println,
    /// ProgressBar::println on the last bar from a destructor that runs while its thread unwinds from a
    /// panic (a guard that logs the failure of its job): the line shows up with the next draw at the latest
    PrintlnUnwinding,
    AddTick,
    FinishDropFirst,
    TickLast,
    SwitchT,
    SwitchU,
}

#[derive(Clone, Copy, PartialEq, Debug)]
pub enum Clause {
    Logs,
    Bars,
    Finished,
}

/// .1: the bars' template is "{msg}\n{prefix}:{pos}" with no message (an empty first line) instead of
/// "{prefix}:{pos}\n+{prefix}"
pub struct C03x(pub Clause, pub bool);

impl C03x {
    fn cfg_name(&self) -> String {
        if self.1 { "two terminals, first template line empty".into() } else { "two terminals".into() }
    }
}

impl Hist for C03x {
    type Op = Op;

    fn alphabet(&self, _p: &[Op]) -> Vec<Op> {
        if self.0 == Clause::Logs {
            return vec![Op::Println, Op::PrintlnUnwinding, Op::AddTick, Op::FinishDropFirst, Op::TickLast, Op::SwitchT, Op::SwitchU];
        }
        if self.1 {
            // (a new target that starts with an empty line on a terminal whose cursor the old target left parked
            // on its last row cannot know that: the variant stays on one terminal)
            return vec![Op::Println, Op::AddTick, Op::FinishDropFirst, Op::TickLast];
        }
        vec![Op::Println, Op::AddTick, Op::FinishDropFirst, Op::TickLast, Op::SwitchT, Op::SwitchU]
    }

    fn run(&self, hist: &[Op], stats: &mut Stats) -> Verdict {
        clock::reset();
        let spies = [Spy::new(20, 30, false), Spy::new(20, 30, false)];
        let mp = MultiProgress::with_draw_target(ProgressDrawTarget::term_like(spies[0].boxed()));
        let mut bars: Vec<ProgressBar> = Vec::new();
        let mut cur = 0usize;
        let mut logs: [Vec<String>; 2] = [vec![], vec![]];
        // printed while unwinding: due with the next operation that draws on that terminal
        // (they are held by the MultiProgress, not by the terminal: they come out where the next draw goes)
        let mut pending: Vec<String> = vec![];
        let mut n = 0usize;
        // prefix of every bar ever added; finished+dropped bars: (prefix, terminal it was finished on, a line was printed there since)
        let mut names: Vec<String> = Vec::new();
        let mut added = 0usize;
        // number of rows the current terminal showed when it (last) became the target: what is above
        // stays as the old target left it
        let mut base = 0usize;
        let mut finished: Vec<(String, usize, bool)> = Vec::new();
        let shown: Vec<String> = hist.iter().map(|o| format!("{:?}", o)).collect();
        // root: two log lines on terminal T
        let mut all: Vec<Op> = vec![Op::Println, Op::Println];
        all.extend(hist.iter().cloned());
        let (mut added_now, mut had_bars) = (false, false);
        for (i, op) in all.iter().enumerate() {
            clock::advance_ms(3);
            added_now = bars.len() < 3;
            had_bars = !bars.is_empty();
            let r = catch(|| match op {
                Op::Println => {
                    let t = format!("L{n}");
                    let _ = mp.println(&t);
                    logs[cur].push(t);
                    n += 1;
                    for f in finished.iter_mut() {
                        if f.1 == cur {
                            f.2 = true;
                        }
                    }
                }
                Op::PrintlnUnwinding => {
                    if let Some(b) = bars.last() {
                        struct Guard(ProgressBar, String);
                        impl Drop for Guard {
                            fn drop(&mut self) {
                                self.0.println(&self.1);
                            }
                        }
                        let t = format!("L{n}");
                        let g = Guard(b.clone(), t.clone());
                        let _ = std::panic::catch_unwind(std::panic::AssertUnwindSafe(move || {
                            let _g = g;
                            panic!("job failed");
                        }));
                        pending.push(t);
                        n += 1;
                    }
                }
                Op::AddTick => {
                    if bars.len() < 3 {
                        let b = mp.add(ProgressBar::with_draw_target(Some(5), ProgressDrawTarget::hidden()).with_style(ProgressStyle::with_template(if self.1 { "{msg}\n{prefix}:{pos}" } else { "{prefix}:{pos}\n+{prefix}" }).unwrap()).with_prefix(format!("b{}", added)).with_finish(ProgressFinish::AndLeave));
                        b.tick();
                        bars.push(b);
                        names.push(format!("b{}", added));
                        added += 1;
                    }
                }
                Op::FinishDropFirst => {
                    if !bars.is_empty() {
                        let b = bars.remove(0);
                        b.finish();
                        drop(b);
                        finished.push((names.remove(0), cur, false));
                    }
                }
                Op::TickLast => {
                    if let Some(b) = bars.last() {
                        b.tick();
                    }
                }
                Op::SwitchT => {
                    mp.set_draw_target(ProgressDrawTarget::term_like(spies[0].boxed()));
                    cur = 0;
                    base = spies[0].doc().len();
                }
                Op::SwitchU => {
                    mp.set_draw_target(ProgressDrawTarget::term_like(spies[1].boxed()));
                    cur = 1;
                    base = spies[1].doc().len();
                }
            });
            // an operation that draws on the current terminal also brings out the lines held back there
            let draws = match op {
                Op::Println => true,
                Op::AddTick => added_now,
                Op::TickLast | Op::FinishDropFirst => had_bars,
                _ => false,
            };
            if draws && r.is_ok() {
                let mut p = std::mem::take(&mut pending);
                logs[cur].append(&mut p);
            }
            if let Err(p) = r {
                std::mem::forget(bars);
                return Verdict::Bad(Violation { class: format!("panic: {}", panic_class(&p)), config: self.cfg_name(), history: shown[..(i + 1).saturating_sub(2).min(shown.len())].to_vec(), detail: p });
            }
        }
        let docs = [spies[0].doc(), spies[1].doc()];
        let _ = catch(move || drop((bars, mp)));
        let drew = match all.last() {
            Some(Op::Println) => true,
            Some(Op::AddTick) => added_now,
            Some(Op::TickLast | Op::FinishDropFirst) => had_bars,
            _ => false,
        };
        if self.0 == Clause::Bars && drew && !names.is_empty() {
            // rows of the live bars on the current terminal, in order, after the last printed line
            let want: Vec<String> = names.iter().flat_map(|n| if self.1 { vec![format!("{n}:0")] } else { vec![format!("{n}:0"), format!("+{n}")] }).collect();
            let seg: Vec<String> = docs[cur].iter().skip(base).cloned().collect();
            let got: Vec<String> = seg.iter().filter(|r| names.iter().any(|n| r.starts_with(&format!("{n}:")) || **r == format!("+{n}"))).cloned().collect();
            let last_log = seg.iter().rposition(|r| r.starts_with('L'));
            let first_bar = seg.iter().position(|r| got.contains(r));
            if got != want || matches!((last_log, first_bar), (Some(l), Some(b)) if b < l) {
                return Verdict::Bad(Violation {
                    class: "bars: after set_draw_target a draw does not show every live bar once, in order, below the printed lines".into(),
                    config: self.cfg_name(),
                    history: shown,
                    detail: format!("terminal {}: live bars {:?}, shows {:?} (the first {} rows are from before it became the target)", ["T", "U"][cur], names, docs[cur], base),
                });
            }
        }
        if self.0 == Clause::Finished {
            for (name, t, printed) in &finished {
                // ("<name>:5" is only ever painted by the finish)
                let (fin, second) = (format!("{name}:5"), format!("+{name}"));
                let at: Vec<usize> = docs[*t].iter().enumerate().filter(|(_, d)| **d == fin).map(|(i, _)| i).collect();
                let ok = (at.len() == 1 && (self.1 || docs[*t].get(at[0] + 1) == Some(&second))) || (*printed && at.is_empty());
                if !ok {
                    return Verdict::Bad(Violation {
                        class: "final-state: a bar that finished visibly and was dropped lost its final rendering without a line being printed (two-terminal engine)".into(),
                        config: self.cfg_name(),
                        history: shown,
                        detail: format!("terminal {}: bar {name} finished there, shows {:?}", ["T", "U"][*t], docs[*t]),
                    });
                }
            }
        }
        for t in 0..2 {
            if self.0 != Clause::Logs {
                break;
            }
            let got: Vec<&String> = docs[t].iter().filter(|r| r.starts_with('L')).collect();
            let want: Vec<&String> = logs[t].iter().collect();
            if got != want {
                return Verdict::Bad(Violation {
                    class: "log: a line printed while this terminal was the draw target is missing, duplicated or out of order after set_draw_target".into(),
                    config: self.cfg_name(),
                    history: shown,
                    detail: format!("terminal {}: printed {:?}, shows {:?}", ["T", "U"][t], want, docs[t]),
                });
            }
        }
        stats.outcomes.insert(hash_of(&docs));
        Verdict::Ok { hash: hash_of(&docs), nontrivial: hist.iter().any(|o| matches!(o, Op::SwitchT | Op::SwitchU | Op::FinishDropFirst)) }
    }
}

pub fn depth(tier: Tier) -> usize {
    if tier == Tier::Quick { 5 } else { 7 }
}

pub fn run(tier: Tier, shard: Shard, stats: &mut Stats, clause: Clause) {
    Dfs::new(&C03x(clause, false), depth(tier), shard, 1).explore(stats);
    if clause != Clause::Logs {
        Dfs::new(&C03x(clause, true), depth(tier) + 1, shard, 1).explore(stats);
    }
}

pub fn replay(v: &serde_json::Value, id: &str) -> Option<i32> {
    let empty_first = v["config"] == "two terminals, first template line empty";
    if v["config"] != "two terminals" && !empty_first {
        return None;
    }
    let hist: Vec<String> = v["history"].as_array().map(|a| a.iter().map(|s| s.as_str().unwrap_or("").to_string()).collect()).unwrap_or_default();
    let clause = match id {
        "C02" => Clause::Bars,
        "C04" => Clause::Finished,
        _ => Clause::Logs,
    };
    Some(crate::replay_hist(&C03x(clause, empty_first), &hist, id))
}
