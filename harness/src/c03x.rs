//! C03 — printed lines survive a change of the MultiProgress draw target (two terminals).
//!
//! Histories over {println, add+tick, finish+drop the first live bar, tick, switch to terminal T / U}.
//! Oracle: on each terminal the lines printed while it was the target are all present, once, in order.

use crate::report::{hash_of, Dfs, Hist, Shard, Stats, Verdict, Violation};
use crate::term::Spy;
use crate::util::{catch, panic_class};
use crate::{clock, Tier};
use indicatif::{MultiProgress, ProgressBar, ProgressDrawTarget, ProgressFinish, ProgressStyle};

#[derive(Clone, Debug, PartialEq)]
pub enum Op {
    Println,
    AddTick,
    FinishDropFirst,
    TickLast,
    SwitchT,
    SwitchU,
}

pub struct C03x;

impl Hist for C03x {
    type Op = Op;

    fn alphabet(&self, _p: &[Op]) -> Vec<Op> {
        vec![Op::Println, Op::AddTick, Op::FinishDropFirst, Op::TickLast, Op::SwitchT, Op::SwitchU]
    }

    fn run(&self, hist: &[Op], stats: &mut Stats) -> Verdict {
        clock::reset();
        let spies = [Spy::new(20, 30, false), Spy::new(20, 30, false)];
        let mp = MultiProgress::with_draw_target(ProgressDrawTarget::term_like(spies[0].boxed()));
        let mut bars: Vec<ProgressBar> = Vec::new();
        let mut cur = 0usize;
        let mut logs: [Vec<String>; 2] = [vec![], vec![]];
        let mut n = 0usize;
        let shown: Vec<String> = hist.iter().map(|o| format!("{:?}", o)).collect();
        // root: two log lines on terminal T
        let mut all: Vec<Op> = vec![Op::Println, Op::Println];
        all.extend(hist.iter().cloned());
        for (i, op) in all.iter().enumerate() {
            clock::advance_ms(3);
            let r = catch(|| match op {
                Op::Println => {
                    let t = format!("L{n}");
                    let _ = mp.println(&t);
                    logs[cur].push(t);
                    n += 1;
                }
                Op::AddTick => {
                    if bars.len() < 3 {
                        let b = mp.add(ProgressBar::with_draw_target(Some(5), ProgressDrawTarget::hidden()).with_style(ProgressStyle::with_template("{prefix}:{pos}\n+{prefix}").unwrap()).with_prefix(format!("b{}", bars.len())).with_finish(ProgressFinish::AndLeave));
                        b.tick();
                        bars.push(b);
                    }
                }
                Op::FinishDropFirst => {
                    if !bars.is_empty() {
                        let b = bars.remove(0);
                        b.finish();
                        drop(b);
                    }
                }
                Op::TickLast => {
                    if let Some(b) = bars.last() {
                        b.tick();
                    }
                }
                Op::SwitchT => {
                    mp.set_draw_target(ProgressDrawTarget::term_like(spies[0].boxed()));
                    cur = 0;
                }
                Op::SwitchU => {
                    mp.set_draw_target(ProgressDrawTarget::term_like(spies[1].boxed()));
                    cur = 1;
                }
            });
            if let Err(p) = r {
                std::mem::forget(bars);
                return Verdict::Bad(Violation { class: format!("panic: {}", panic_class(&p)), config: "two terminals".into(), history: shown[..(i + 1).saturating_sub(2).min(shown.len())].to_vec(), detail: p });
            }
        }
        let docs = [spies[0].doc(), spies[1].doc()];
        let _ = catch(move || drop((bars, mp)));
        for t in 0..2 {
            let got: Vec<&String> = docs[t].iter().filter(|r| r.starts_with('L')).collect();
            let want: Vec<&String> = logs[t].iter().collect();
            if got != want {
                return Verdict::Bad(Violation {
                    class: "log: a line printed while this terminal was the draw target is missing, duplicated or out of order after set_draw_target".into(),
                    config: "two terminals".into(),
                    history: shown,
                    detail: format!("terminal {}: printed {:?}, shows {:?}", ["T", "U"][t], want, docs[t]),
                });
            }
        }
        stats.outcomes.insert(hash_of(&docs));
        Verdict::Ok { hash: hash_of(&docs), nontrivial: hist.iter().any(|o| matches!(o, Op::SwitchT | Op::SwitchU)) }
    }
}

pub fn depth(tier: Tier) -> usize {
    if tier == Tier::Quick { 5 } else { 7 }
}

pub fn run(tier: Tier, shard: Shard, stats: &mut Stats) {
    Dfs::new(&C03x, depth(tier), shard, 1).explore(stats);
}

pub fn replay(v: &serde_json::Value) -> Option<i32> {
    if v["config"] != "two terminals" {
        return None;
    }
    let hist: Vec<String> = v["history"].as_array().map(|a| a.iter().map(|s| s.as_str().unwrap_or("").to_string()).collect()).unwrap_or_default();
    Some(crate::replay_hist(&C03x, &hist, "C03"))
}
