//! C10 — template parsing is total and preserves literal text (ENUM).

use crate::render::{bar_on, for_cases, frame_lines, LineCatcher};
use crate::report::{hash_of, Shard, Stats, Violation};
use crate::util::{catch, panic_class};
use crate::{Meta, Tier};
use indicatif::{ProgressState, ProgressStyle};
use serde_json::{json, Value};
use std::fmt::Write;

const SIGMA: [char; 16] = ['{', '}', ':', 'a', '1', '9', '<', '^', '>', '!', '.', '/', ' ', '\n', '\t', 'é'];

fn nth_string(mut i: u64, len: usize) -> String {
    let mut s = String::with_capacity(len * 2);
    for _ in 0..len {
        s.push(SIGMA[(i % 16) as usize]);
        i /= 16;
    }
    s
}

fn totality(tier: Tier, shard: Shard, stats: &mut Stats) {
    let maxlen = if tier == Tier::Quick { 6 } else { 8 };
    let base = ProgressStyle::default_bar();
    for len in 0..=maxlen {
        let n = 16u64.pow(len as u32);
        let mut i = shard.i as u64;
        while i < n {
            let s = nth_string(i, len);
            stats.evaluations += 1;
            stats.transitions += 1;
            let r = catch(|| ProgressStyle::with_template(&s).is_ok());
            let r2 = if len <= 4 { catch(|| base.clone().template(&s).is_ok()) } else { r.clone() };
            match (&r, &r2) {
                (Ok(a), Ok(b)) => {
                    if a != b {
                        stats.violation(Violation { class: "totality: with_template and template disagree".into(), config: "totality".into(), history: vec![format!("{:?}", s)], detail: format!("{a} vs {b}") });
                    }
                    // outcome classes: ok / err
                    stats.state(hash_of(&(len, *a, s.matches('{').count().min(3), s.contains(':'))), *a);
                    stats.outcomes.insert(*a as u64);
                }
                (Err(p), _) | (_, Err(p)) => {
                    stats.violation(Violation { class: format!("totality panic: {}", panic_class(p)), config: "totality".into(), history: vec![format!("{:?}", s)], detail: p.clone() });
                }
            }
            i += shard.n as u64;
        }
    }
    // widths up to and beyond u16::MAX, long digit strings, for several placeholder prefixes
    if shard.i == 0 {
        let mut widths: Vec<String> = vec!["65535".into(), "65536".into(), "99999".into(), "4294967296".into()];
        for d in 1..=25 {
            widths.push("9".repeat(d));
            widths.push(format!("1{}", "0".repeat(d - 1)));
        }
        for pre in ["{pos:", "{msg:<", "{bar:", "{wide_bar:^", "{k:>", "{pos:0"] {
            for wd in &widths {
                for post in ["}", "!}", ".red}", ".red/blue}"] {
                    let s = format!("{pre}{wd}{post}");
                    stats.evaluations += 1;
                    stats.transitions += 1;
                    match catch(|| ProgressStyle::with_template(&s).is_ok()) {
                        Ok(ok) => {
                            stats.state(hash_of(&("w", wd.len(), ok)), true);
                        }
                        Err(p) => stats.violation(Violation { class: format!("totality panic: {}", panic_class(&p)), config: "totality/widths".into(), history: vec![format!("{:?}", s)], detail: p }),
                    }
                }
            }
        }
    }
}

#[derive(Clone, Debug)]
struct Seg {
    text: String,
    /// expansion when rendered (None = line break)
    out: Option<String>,
    /// the expansion is followed by a line break (a brace followed by a newline stands for itself)
    brk_after: bool,
}

fn pad(content: &str, width: usize, align: char) -> String {
    let cols = content.chars().count();
    if cols >= width {
        return content.to_string();
    }
    let d = width - cols;
    let (l, r) = match align {
        '<' => (0, d),
        '>' => (d, 0),
        _ => (d / 2, d - d / 2),
    };
    format!("{}{}{}", " ".repeat(l), content, " ".repeat(r))
}

fn segments() -> Vec<Seg> {
    let mut v = Vec::new();
    for lit in ["x", "é", "x ", " "] {
        v.push(Seg { text: lit.into(), out: Some(lit.into()), brk_after: false });
    }
    v.push(Seg { text: "{{".into(), out: Some("{".into()), brk_after: false });
    v.push(Seg { text: "}}".into(), out: Some("}".into()), brk_after: false });
    v.push(Seg { text: "{ ".into(), out: Some("{ ".into()), brk_after: false });
    // tabs stay in the derivation and are expanded with the tab width of the bar that renders it
    v.push(Seg { text: "{\t".into(), out: Some("{\t".into()), brk_after: false });
    v.push(Seg { text: "a\tb".into(), out: Some("a\tb".into()), brk_after: false });
    // placeholders whose expansion depends on the rest of their line (\u{1}: bar cells, \u{2}: message
    // padded to the remaining width) and two fixed ones
    v.push(Seg { text: "{wide_bar}".into(), out: Some("\u{1}".into()), brk_after: false });
    v.push(Seg { text: "{wide_msg}".into(), out: Some("\u{2}".into()), brk_after: false });
    v.push(Seg { text: "{pos}".into(), out: Some("0".into()), brk_after: false });
    // a documented key that a style may also register as a custom key (\u{3}: "0 B" from the built-in,
    // the tracker's output once one is registered under that name)
    v.push(Seg { text: "{bytes}".into(), out: Some("\u{3}".into()), brk_after: false });
    v.push(Seg { text: "{total_bytes:>7}".into(), out: Some("\u{4}".into()), brk_after: false });
    v.push(Seg { text: "{bar:4}".into(), out: Some("░░░░".into()), brk_after: false });
    v.push(Seg { text: "{\n".into(), out: Some("{".into()), brk_after: true });
    v.push(Seg { text: "\n".into(), out: None, brk_after: false });
    for (key, content) in [("k", "VAL"), ("zz", ""), ("msg", "M"), ("\"q\"", "")] {
        for (opt, width, align) in [
            ("", 0usize, '<'),
            (":", 0, '<'),
            (":5", 5, '<'),
            (":<5", 5, '<'),
            (":^5", 5, '^'),
            (":>5!", 5, '>'),
            (":!", 0, '<'),
            (":.red", 0, '<'),
            (":5.red/blue", 5, '<'),
            (":05", 5, '<'),
            // wider than the terminal the bar is drawn on (200 columns): still exactly W columns
            (":300", 300, '<'),
            (":>250!", 250, '>'),
        ] {
            v.push(Seg { text: format!("{{{key}{opt}}}"), out: Some(pad(content, width, align)), brk_after: false });
        }
    }
    v
}

fn fidelity(tier: Tier, shard: Shard, stats: &mut Stats) {
    let segs = segments();
    let n = segs.len() as u64;
    let catcher = LineCatcher::new(200);
    let maxseg = if tier == Tier::Quick { 3 } else { 4 };
    let mut total = 0u64;
    for k in 1..=maxseg {
        total += n.pow(k as u32);
    }
    let cases = (0..total).map(|mut i| {
        let mut k = 1u32;
        while i >= n.pow(k) {
            i -= n.pow(k);
            k += 1;
        }
        let mut idx = Vec::new();
        for _ in 0..k {
            idx.push((i % n) as usize);
            i /= n;
        }
        idx
    });
    for_cases(cases, shard, stats, |idx, stats| {
        let tpl: String = idx.iter().map(|&i| segs[i].text.as_str()).collect();
        // expected lines from the derivation
        let mut lines = vec![String::new()];
        for &i in idx {
            match &segs[i].out {
                Some(o) => lines.last_mut().unwrap().push_str(o),
                None => lines.push(String::new()),
            }
            if segs[i].brk_after {
                lines.push(String::new());
            }
        }
        let mk = |class: String, detail: String| Violation { class, config: "fidelity".into(), history: vec![format!("{:?}", tpl)], detail };
        // one element per line may take the remaining width
        if lines.iter().any(|l| l.chars().filter(|c| *c == '\u{1}' || *c == '\u{2}').count() > 1) {
            return Ok((0, false));
        }
        // route 0: with_template on a default bar; route 1 (templates with a tab): the template is put
        // on the style of a live bar with tab width 4 through bar.style().template(..) + set_style
        // route 2 (templates with a wide element): the terminal shrinks to 120 columns between two draws
        // of one bar; route 3 (templates with an unknown key): the bar had a style that registered a
        // custom key of that name before this style was installed
        let mut routes_v: Vec<usize> = vec![0];
        if tpl.contains('\t') {
            routes_v.push(1);
        }
        if tpl.contains("{wide_") {
            routes_v.push(2);
        }
        if tpl.contains("{zz") {
            routes_v.push(3);
        }
        // route 4 (templates with {bytes}/{total_bytes}): the style registers custom keys under these names
        if tpl.contains("bytes") {
            routes_v.push(4);
        }
        let routes: &[usize] = &routes_v;
        let mut got_all = Vec::new();
        for &route in routes {
            let tabw = if route == 1 { 4 } else { 8 };
            let tw = if route == 2 { 120usize } else { 200 };
            let expect: Vec<String> = lines
                .iter()
                .map(|l| {
                    let l = l.replace('\t', &" ".repeat(tabw));
                    let l = if route == 4 { l.replace('\u{3}', "CUS").replace('\u{4}', "    TOT") } else { l.replace('\u{3}', "0 B").replace('\u{4}', "    5 B") };
                    let rest = l.chars().filter(|c| *c != '\u{1}' && *c != '\u{2}').count();
                    let room = tw.saturating_sub(rest);
                    l.replace('\u{1}', &"░".repeat(room)).replace('\u{2}', &if room == 0 { String::new() } else { format!("M{}", " ".repeat(room - 1)) })
                })
                .collect();
            let style = match catch(|| ProgressStyle::with_template(&tpl)) {
                Err(p) => return Err(mk(format!("fidelity panic: {}", panic_class(&p)), p)),
                Ok(Err(e)) => return Err(mk("fidelity: a well-formed template is rejected".into(), format!("{e}"))),
                Ok(Ok(s)) => s,
            };
            let style = style.with_key("k", |_: &ProgressState, w: &mut dyn Write| write!(w, "VAL").unwrap());
            let style = if route == 4 {
                style.with_key("bytes", |_: &ProgressState, w: &mut dyn Write| write!(w, "CUS").unwrap()).with_key("total_bytes", |_: &ProgressState, w: &mut dyn Write| write!(w, "TOT").unwrap())
            } else {
                style
            };
            let got = match catch(|| {
                let pb = if route == 0 || route == 4 {
                    bar_on(&catcher, Some(5), style).with_message("M")
                } else if route == 2 {
                    let pb = bar_on(&catcher, Some(5), style).with_message("M");
                    pb.tick();
                    catcher.resize(120);
                    pb
                } else if route == 3 {
                    let old = ProgressStyle::with_template("{zz}").unwrap().with_key("zz", |_: &ProgressState, w: &mut dyn Write| write!(w, "OLD").unwrap());
                    let pb = bar_on(&catcher, Some(5), old).with_message("M");
                    pb.tick();
                    pb.set_style(style);
                    pb
                } else {
                    let pb = bar_on(&catcher, Some(5), ProgressStyle::with_template("{msg}").unwrap().with_key("k", |_: &ProgressState, w: &mut dyn Write| write!(w, "VAL").unwrap())).with_message("M").with_tab_width(4);
                    pb.tick();
                    pb.set_style(pb.style().template(&tpl).unwrap());
                    pb
                };
                let g = frame_lines(&catcher, &pb);
                pb.abandon();
                g
            }) {
                Ok(g) => g,
                Err(p) => {
                    catcher.resize(200);
                    return Err(mk(format!("fidelity panic in draw: {}", panic_class(&p)), p));
                }
            };
            catcher.resize(200);
            catcher.take();
            // a line that ends with {wide_msg} ends in padding: the terminal layer may write those
            // blanks as its own right-edge filler, so trailing blanks of such a line are not compared
            let ends_wide: Vec<bool> = lines.iter().map(|l| l.ends_with('\u{2}')).collect();
            let norm = |v: &[String]| -> Vec<String> { v.iter().enumerate().map(|(i, l)| if ends_wide.get(i).copied().unwrap_or(false) { l.trim_end().to_string() } else { l.clone() }).collect() };
            let (expect, got) = (norm(&expect), norm(&got));
            // a final empty template line may or may not occupy a row
            let mut alt = expect.clone();
            if alt.last().map_or(false, |l| l.is_empty()) {
                alt.pop();
            }
            if got != expect && got != alt {
                let class = if route == 2 {
                    "fidelity: rendering does not follow the terminal width after a resize between two draws"
                } else if route == 3 {
                    "fidelity: an unknown key expands to the output of a custom key registered by an earlier style of the bar"
                } else if route == 4 {
                    "fidelity: a placeholder whose key the style registered as a custom key does not expand to the tracker's output"
                } else if route == 1 {
                    "fidelity: rendering differs from the derivation when the template is installed on a live bar with tab width 4"
                } else if idx.iter().any(|&i| segs[i].text.starts_with("{ ") || segs[i].text.starts_with("{\t") || segs[i].text.starts_with("{\n")) {
                    "fidelity: rendering differs from the derivation (template contains '{'+whitespace)"
                } else if tpl.contains("{wide_") {
                    "fidelity: rendering differs from the derivation (template contains a wide element)"
                } else {
                    "fidelity: rendering differs from the in-order concatenation of literals and expansions"
                };
                return Err(mk(class.into(), format!("expected {:?} got {:?}", expect, got)));
            }
            got_all.push(got);
        }
        let got = got_all;
        stats.sample(json!(tpl));
        let nt = idx.len() > 1;
        Ok((hash_of(&got), nt))
    });
}

pub fn run(tier: Tier, shard: Shard, stats: &mut Stats) {
    totality(tier, shard, stats);
    fidelity(tier, shard, stats);
}

pub fn meta(tier: Tier) -> Meta {
    let (l, k) = if tier == Tier::Quick { (6, 3) } else { (8, 4) };
    Meta {
        level: "exploration",
        rule: format!("totality: every string of length <= {l} over the 16-symbol alphabet {:?} through with_template (and template() for length <= 4), plus 216 placeholder widths up to 25 digits x 6 prefixes x 4 suffixes; fidelity: every derivation of <= {k} segments from {} grammar segments rendered on a real bar and compared with the derivation's own concatenation; non-trivial = accepted template / multi-segment derivation; distinct = distinct rendered outputs", SIGMA, segments().len()),
        assumptions: vec!["colours disabled so .style suffixes render nothing".into(), "a final empty template line may or may not occupy a row (statement is silent)".into()],
        bounds: json!({"max_string_len": l, "max_segments": k, "alphabet": SIGMA.iter().collect::<String>()}),
        exhaustive: true,
    }
}

pub fn replay(v: &Value) -> i32 {
    let tpl: String = serde_json::from_str(v["history"][0].as_str().unwrap_or("\"\"")).unwrap_or_default();
    println!("template {:?}", tpl);
    match catch(|| ProgressStyle::with_template(&tpl).map(|_| ())) {
        Err(p) => {
            println!("VIOLATION property=C10 replay=(this file)\n  panic: {p}");
            1
        }
        Ok(r) => {
            println!("with_template -> {:?}", r.map_err(|e| e.to_string()));
            let mut st = Stats::default();
            // re-run the fidelity judgement on this single template if it came from there
            if v["config"] == "fidelity" {
                let segs = segments();
                println!("(fidelity case; segments: {:?})", segs.iter().filter(|s| tpl.contains(&s.text)).map(|s| s.text.clone()).collect::<Vec<_>>());
            }
            let _ = &mut st;
            println!("detail recorded: {}", v["detail"]);
            if v["class"].as_str().unwrap_or("").starts_with("fidelity") { 1 } else { 0 }
        }
    }
}
