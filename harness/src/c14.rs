//! C14 — every style the builder accepts can be rendered without panicking (ENUM).

use crate::render::{bar_on, frame_lines, LineCatcher};
use crate::report::{hash_of, Shard, Stats, Violation};
use crate::util::{catch, panic_class};
use crate::{Meta, Tier};
use indicatif::{ProgressState, ProgressStyle};
use serde_json::{json, Value};
use std::fmt::Write;

fn explicit(p: &str) -> bool {
    let implicit = ["attempt to ", "index out of bounds", "byte index", "called `Option::unwrap()`", "called `Result::unwrap()`", "out of range", "slice index", "divide by zero", "remainder with a divisor of zero"];
    !implicit.iter().any(|m| p.contains(m))
}

fn seqs<T: Clone>(alpha: &[T], max: usize) -> Vec<Vec<T>> {
    let mut all = vec![vec![]];
    let mut cur: Vec<Vec<T>> = vec![vec![]];
    for _ in 0..max {
        let mut next = Vec::new();
        for c in &cur {
            for a in alpha {
                let mut d = c.clone();
                d.push(a.clone());
                next.push(d);
            }
        }
        all.extend(next.iter().cloned());
        cur = next;
    }
    all
}

const TEMPLATES: [&str; 19] = [
    // every documented key once, fixed-width and truncating variants
    "{spinner}{prefix}{msg}{pos}{human_pos}{len}{human_len}{percent}{percent_precise}{bytes}{total_bytes}{decimal_bytes}{decimal_total_bytes}{binary_bytes}{binary_total_bytes}",
    "{elapsed_precise}{elapsed}{per_sec}{bytes_per_sec}{decimal_bytes_per_sec}{binary_bytes_per_sec}{eta_precise}{eta}{duration_precise}{duration}{human_pos:>3!}{human_len:^40}",
    // a wide element on one line, other lines before and after it
    "{wide_bar}\n{pos}/{len} {msg}",
    "{prefix}|\n{wide_msg}\n{spinner} x",
    "{msg:>4!}|{wide_msg}",
    "{eta_precise} {duration} {wide_msg:^}",
    "{spinner} {msg}",
    "{spinner:.green} {wide_msg}",
    "{bar:10} {pos}/{len}",
    "{wide_bar} {pos}",
    "{bar:0}|{bar:1}|{bar:3}",
    "{prefix} {wide_bar:.cyan/blue} {percent}%",
    "{msg}\n{bar:5}\n{spinner}",
    "{bar}",
    "{wide_bar}{wide_bar}",
    "{k} {spinner}{bar:2}",
    "",
    "{eta} {elapsed} {per_sec} {bytes}",
    // a custom key whose tracker redraws another bar while it is being written
    "{nest}{pos} {msg}",
];

/// Templates the builder may refuse (then there is nothing to render) or accept (then they must render).
const MAYBE_TEMPLATES: [&str; 6] = ["{per_sec:65535}", "{per_sec:65536}", "{per_sec:4294967296}", "{msg:70000}", "{bar:70000}|{pos:>65536}", "{wide_msg:65536}"];

enum Build {
    TickChars(String),
    TickStrings(Vec<String>),
    ProgressChars(String),
    Plain,
}

impl Build {
    fn show(&self) -> String {
        match self {
            Build::TickChars(s) => format!("tick_chars({:?})", s),
            Build::TickStrings(v) => format!("tick_strings({:?})", v),
            Build::ProgressChars(s) => format!("progress_chars({:?})", s),
            Build::Plain => "default".into(),
        }
    }
}

fn exercise(style: ProgressStyle, nticks: u64, hist: &[String], stats: &mut Stats) -> Result<u64, Violation> {
    let mk = |class: String, step: String, p: String| Violation { class, config: "C14".into(), history: { let mut h = hist.to_vec(); h.push(step); h }, detail: p };
    // tick strings by index
    for idx in [0u64, 1, nticks.saturating_sub(1), nticks, nticks + 1, u64::MAX] {
        if let Err(p) = catch(|| style.get_tick_str(idx).len()) {
            return Err(mk(format!("accepted style panics in get_tick_str: {}", panic_class(&p)), format!("get_tick_str({idx})"), p));
        }
    }
    if let Err(p) = catch(|| style.get_final_tick_str().len()) {
        return Err(mk(format!("accepted style panics in get_final_tick_str: {}", panic_class(&p)), "get_final_tick_str()".into(), p));
    }
    let mut h = 0u64;
    crate::clock::reset();
    for w in [0u16, 1, 5, 80] {
        let catcher = LineCatcher::new(w);
        for (pos, len) in [(0u64, Some(0u64)), (3, Some(0)), (0, Some(5)), (3, Some(5)), (5, Some(5)), (9, Some(5)), (u64::MAX, Some(u64::MAX)), (0, Some(u64::MAX)), (7, None)] {
            for status in 0..5 {
                let msg = match status {
                    3 => "",
                    4 => "héllo wörld ünï",
                    _ => "msg",
                };
                let step = format!("draw at width {w} pos {pos} len {:?} status {status} message {:?}", len, msg);
                let st = style.clone();
                let r = catch(|| {
                    let pb = bar_on(&catcher, len, st).with_position(pos).with_message(msg).with_prefix("p");
                    let mut out = Vec::new();
                    for _ in 0..=(2 * nticks + 1).min(12) {
                        pb.tick();
                    }
                    if len == Some(u64::MAX) || len == Some(5) {
                        // one slow step: the estimator now knows a rate below one step per second
                        crate::clock::advance_ms(2500);
                        pb.inc(1);
                    }
                    match status {
                        1 => pb.finish(),
                        2 => pb.abandon(),
                        _ => {}
                    }
                    out.extend(frame_lines(&catcher, &pb));
                    pb.abandon();
                    out
                });
                match r {
                    Ok(lines) => h = hash_of(&(h, lines.len(), lines.first().map(|l| l.chars().count()))),
                    Err(p) => return Err(mk(format!("accepted style panics in draw: {}", panic_class(&p)), step, p)),
                }
                stats.bump("draws", 1);
            }
        }
    }
    // bars that start with an elapsed time (restored from an earlier run): a value the builder refuses
    // (with a panic of its own) is fine, a value it accepts must not make a later draw panic
    for d in [std::time::Duration::ZERO, std::time::Duration::from_secs(1_000_000_000), std::time::Duration::from_secs(u64::MAX / 2), std::time::Duration::MAX - std::time::Duration::from_secs(1), std::time::Duration::MAX] {
        let catcher = LineCatcher::new(80);
        let step = format!("bar built with_elapsed({:?}), drawn in progress and finished", d);
        let st = style.clone();
        let Ok(pb) = catch(|| bar_on(&catcher, Some(5), st).with_position(3).with_message("msg").with_elapsed(d)) else {
            continue;
        };
        let r = catch(|| {
            pb.tick();
            crate::clock::advance_ms(2500);
            pb.inc(1);
            let mut out = frame_lines(&catcher, &pb);
            pb.finish();
            out.extend(frame_lines(&catcher, &pb));
            out
        });
        if let Err(p) = r {
            let _ = catch(move || drop(pb));
            return Err(mk(format!("accepted style panics in draw: {}", panic_class(&p)), step, p));
        }
        stats.bump("draws", 2);
    }
    // the terminal changes its mind about its width in the middle of a draw: the k-th width query and
    // all later ones get another answer
    for (w1, w2) in [(80u16, 10u16), (10, 80), (40, 0), (3, 1)] {
        for k in 0..6usize {
            let catcher = LineCatcher::new(w2);
            let step = format!("draw while the terminal answers {w1} columns to the first {k} width queries and {w2} afterwards");
            let st = style.clone();
            let r = catch(|| {
                let pb = bar_on(&catcher, Some(5), st).with_position(3).with_message("a message of some length").with_prefix("p");
                pb.tick();
                *catcher.width_script.lock().unwrap() = std::iter::repeat(w1).take(k).collect();
                pb.force_draw();
                pb.set_message("other");
                catcher.width_script.lock().unwrap().clear();
                pb.abandon();
            });
            if let Err(p) = r {
                return Err(mk(format!("accepted style panics in draw: {}", panic_class(&p)), step, p));
            }
            stats.bump("draws", 3);
        }
    }
    // the style is installed on a live bar whose tick count was accumulated under another spinner
    // (and the other way round): "every bar state, tick count" includes counts the new style never produced
    let catcher = LineCatcher::new(80);
    for t in [1u64, 2, 3, 5, 11, 12, 13, 25] {
        for dir in 0..2 {
            let step = format!("{} after {t} ticks, then set_message / force_draw / tick / finish", if dir == 0 { "set_style(this style) on a bar with a 12-string spinner" } else { "set_style(12-string spinner) on a bar with this style" });
            let long = ProgressStyle::with_template("{spinner} {msg} {bar:10} {pos}/{len}").unwrap().tick_strings(&["0", "1", "2", "3", "4", "5", "6", "7", "8", "9", "A", "done"]);
            let (first, second) = if dir == 0 { (long, style.clone()) } else { (style.clone(), long) };
            let r = catch(|| {
                let pb = bar_on(&catcher, Some(5), first).with_message("m");
                for _ in 0..t {
                    pb.tick();
                }
                pb.set_style(second);
                pb.set_message("x");
                let mut out = frame_lines(&catcher, &pb);
                pb.tick();
                pb.set_prefix("q");
                pb.finish();
                out.extend(frame_lines(&catcher, &pb));
                out
            });
            match r {
                Ok(lines) => h = hash_of(&(h, lines.len())),
                Err(p) => return Err(mk(format!("accepted style panics in draw: {}", panic_class(&p)), step, p)),
            }
            stats.bump("draws", 4);
        }
    }
    Ok(h)
}

pub fn run(tier: Tier, shard: Shard, stats: &mut Stats) {
    let mut builds: Vec<Build> = vec![Build::Plain];
    for s in seqs(&['a', '好', '\u{200b}', '\u{301}'], 3) {
        builds.push(Build::TickChars(s.into_iter().collect()));
    }
    for v in seqs(&["", "a", "ab", "好"], 3) {
        builds.push(Build::TickStrings(v.into_iter().map(String::from).collect()));
    }
    let clusters = ["a", "█", "好", "\u{200b}", "e\u{301}"];
    for v in seqs(&clusters, if tier == Tier::Quick { 3 } else { 5 }) {
        builds.push(Build::ProgressChars(v.concat()));
    }
    let mut case = 0u64;
    for b in &builds {
        for tpl in TEMPLATES {
            case += 1;
            if !shard.owns(case) {
                continue;
            }
            stats.evaluations += 1;
            stats.transitions += 1;
            let hist = vec![format!("with_template({:?})", tpl), b.show()];
            let inner_catcher = LineCatcher::new(30);
            let inner = bar_on(&inner_catcher, Some(3), ProgressStyle::with_template("{msg}{pos}/{len}").unwrap());
            let base = ProgressStyle::with_template(tpl).unwrap().with_key("k", |_: &ProgressState, w: &mut dyn Write| write!(w, "K").unwrap()).with_key("nest", move |_: &ProgressState, w: &mut dyn Write| {
                inner.tick();
                write!(w, "N").unwrap()
            });
            let mut nticks = 30u64;
            let built = catch(|| match b {
                Build::TickChars(s) => base.clone().tick_chars(s),
                Build::TickStrings(v) => {
                    let r: Vec<&str> = v.iter().map(|s| s.as_str()).collect();
                    base.clone().tick_strings(&r)
                }
                Build::ProgressChars(s) => base.clone().progress_chars(s),
                Build::Plain => base.clone(),
            });
            match b {
                Build::TickChars(s) => nticks = s.chars().count() as u64,
                Build::TickStrings(v) => nticks = v.len() as u64,
                _ => {}
            }
            match built {
                Err(p) => {
                    if explicit(&p) {
                        stats.state(hash_of(&("rejected", panic_class(&p))), false);
                        stats.outcomes.insert(hash_of(&panic_class(&p)));
                    } else {
                        stats.violation(Violation { class: format!("builder rejects with an incidental panic instead of an explicit message: {}", panic_class(&p)), config: "C14".into(), history: hist, detail: p });
                    }
                }
                Ok(style) => match exercise(style, nticks, &hist, stats) {
                    Ok(h) => {
                        stats.state(h, true);
                        stats.outcomes.insert(1);
                    }
                    Err(v) => stats.violation(v),
                },
            }
        }
    }
    // templates at the edge of what the parser takes: refused when the style is built, or rendered
    for tpl in MAYBE_TEMPLATES {
        case += 1;
        if !shard.owns(case) {
            continue;
        }
        stats.evaluations += 1;
        stats.transitions += 1;
        let hist = vec![format!("with_template({:?})", tpl), "default".to_string()];
        match catch(|| ProgressStyle::with_template(tpl)) {
            Err(p) => stats.violation(Violation { class: format!("with_template panics: {}", panic_class(&p)), config: "C14".into(), history: hist, detail: p }),
            Ok(Err(_)) => stats.state_outcome(hash_of(&("refused", tpl)), false),
            Ok(Ok(style)) => match exercise(style, 30, &hist, stats) {
                Ok(h) => stats.state_outcome(hash_of(&(h, tpl)), true),
                Err(v) => stats.violation(v),
            },
        }
    }
    stats.sample(json!(["with_template(\"{spinner} {msg}\")", "tick_strings([\"a\"])"]));
    stats.sample(json!(["with_template(\"{bar:10} {pos}/{len}\")", "progress_chars(\"\\u{200b}\\u{200b}\")"]));
}

pub fn meta(tier: Tier) -> Meta {
    let k = if tier == Tier::Quick { 3 } else { 5 };
    Meta {
        level: "exploration",
        rule: format!("every builder argument: tick_chars over strings of <= 3 chars from {{a, 好, ZWSP}}, tick_strings over <= 3 strings from {{\"\", a, ab, 好}}, progress_chars over <= {k} clusters from {{a, █, 好, ZWSP, e+combining acute}}, each on 18 templates (every documented key occurs; wide elements with further template lines around them); every accepted style is asked for tick strings at 0,1,n-1,n,n+1,u64::MAX and drawn at widths 1,5,80 x 7 position/length pairs x 3 statuses after up to 2n+1 ticks, and installed with set_style on a live bar (and replaced by another spinner) after 1..25 ticks under the other style, then redrawn without a tick; oracle: explicit rejection at build time XOR never panics; distinct = distinct rendered shapes / rejection messages; non-trivial = accepted style"),
        assumptions: vec!["a panic message is 'explicit' unless it is an arithmetic, index/slice or unwrap message".into()],
        bounds: json!({"max_clusters": k}),
        exhaustive: true,
    }
}

pub fn replay(v: &Value) -> i32 {
    println!("case: {}\nrecorded: {}", v["history"], v["detail"]);
    1
}
