//! Counters, violations, shard result files and the generic stateless DFS over operation histories.

use serde_json::{json, Value};
use std::collections::{BTreeMap, HashSet};
use std::hash::{Hash, Hasher};

#[derive(Clone, Debug)]
pub struct Violation {
    /// oracle clause + trigger characterisation; the unit known findings are keyed on
    pub class: String,
    pub config: String,
    pub history: Vec<String>,
    pub detail: String,
}

impl Violation {
    pub fn to_json(&self, property: &str) -> Value {
        json!({
            "property": property,
            "class": self.class,
            "config": self.config,
            "history": self.history,
            "detail": self.detail,
        })
    }
}

pub fn hash_of<T: Hash>(t: &T) -> u64 {
    let mut h = std::collections::hash_map::DefaultHasher::new();
    t.hash(&mut h);
    h.finish()
}

#[derive(Default)]
pub struct Stats {
    /// complete real executions (histories / inputs) run
    pub evaluations: u64,
    /// nodes judged (one real operation judged per node)
    pub transitions: u64,
    /// subtrees not extended because their root violated
    pub pruned: u64,
    pub states: HashSet<u64>,
    pub nontrivial: HashSet<u64>,
    pub outcomes: HashSet<u64>,
    pub vt_compares: u64,
    pub caps_hit: Vec<String>,
    pub samples: Vec<Value>,
    pub class_counts: BTreeMap<String, u64>,
    /// shortest witness per class
    pub witnesses: BTreeMap<String, Violation>,
    pub machinery_errors: Vec<String>,
    pub extra: BTreeMap<String, u64>,
    pub notes: Vec<String>,
    pub max_depth: usize,
}

impl Stats {
    pub fn bump(&mut self, key: &str, n: u64) {
        *self.extra.entry(key.to_string()).or_insert(0) += n;
    }

    pub fn sample(&mut self, v: Value) {
        if self.samples.len() < 6 {
            self.samples.push(v);
        }
    }

    pub fn state(&mut self, h: u64, nontrivial: bool) {
        self.states.insert(h);
        if nontrivial {
            self.nontrivial.insert(h);
        }
    }

    /// For input-enumeration engines the state digest *is* a digest of the observed result
    /// (rendered text class, final counters): count it as an observed outcome too.
    pub fn state_outcome(&mut self, h: u64, nontrivial: bool) {
        self.state(h, nontrivial);
        self.outcomes.insert(h);
    }

    pub fn violation(&mut self, v: Violation) {
        *self.class_counts.entry(v.class.clone()).or_insert(0) += 1;
        match self.witnesses.get(&v.class) {
            Some(old) if old.history.len() <= v.history.len() => {}
            _ => {
                self.witnesses.insert(v.class.clone(), v);
            }
        }
    }

    pub fn machinery(&mut self, s: String) {
        if self.machinery_errors.len() < 10 {
            self.machinery_errors.push(s);
        }
    }

    pub fn cap(&mut self, s: &str) {
        if !self.caps_hit.iter().any(|c| c == s) {
            self.caps_hit.push(s.to_string());
        }
    }

    pub fn to_shard_json(&self, property: &str) -> Value {
        json!({
            "evaluations": self.evaluations,
            "transitions": self.transitions,
            "pruned": self.pruned,
            "vt_compares": self.vt_compares,
            "caps_hit": self.caps_hit,
            "samples": self.samples,
            "class_counts": self.class_counts,
            "witnesses": self.witnesses.values().map(|v| v.to_json(property)).collect::<Vec<_>>(),
            "machinery_errors": self.machinery_errors,
            "extra": self.extra,
            "notes": self.notes,
            "max_depth": self.max_depth,
            "states": self.states.iter().collect::<Vec<_>>(),
            "nontrivial": self.nontrivial.iter().collect::<Vec<_>>(),
            "outcomes": self.outcomes.iter().collect::<Vec<_>>(),
        })
    }
}

/// Violation classes listed as known findings for the property being checked.
pub static KNOWN_CLASSES: std::sync::OnceLock<Vec<String>> = std::sync::OnceLock::new();

pub enum Verdict {
    Ok { hash: u64, nontrivial: bool },
    Bad(Violation),
    Machinery(String),
}

#[derive(Clone, Copy)]
pub struct Shard {
    pub i: usize,
    pub n: usize,
}

impl Shard {
    pub fn owns(&self, idx: u64) -> bool {
        (idx % self.n as u64) as usize == self.i
    }
}

/// A bounded-exhaustive, stateless exploration: a node is an operation history; visiting it
/// replays the history on fresh real objects and judges the *last* operation.
pub trait Hist {
    type Op: Clone + std::fmt::Debug;
    fn alphabet(&self, prefix: &[Self::Op]) -> Vec<Self::Op>;
    fn run(&self, hist: &[Self::Op], stats: &mut Stats) -> Verdict;
    fn show(&self, op: &Self::Op) -> String {
        format!("{:?}", op)
    }
    /// the configuration string violations of this engine carry (used when an execution aborts or hangs)
    fn config_name(&self) -> String {
        String::new()
    }
}

/// The property the running check decides (for executions that abort or hang inside the code under test).
pub static CURRENT_PROP: std::sync::OnceLock<String> = std::sync::OnceLock::new();

pub struct Dfs<'a, H: Hist> {
    pub h: &'a H,
    pub depth: usize,
    pub shard: Shard,
    pub shard_depth: usize,
    counters: Vec<u64>,
    pub deadline: Option<f64>,
}

impl<'a, H: Hist> Dfs<'a, H> {
    pub fn new(h: &'a H, depth: usize, shard: Shard, shard_depth: usize) -> Self {
        Dfs {
            h,
            depth,
            shard,
            shard_depth: shard_depth.min(depth),
            counters: vec![0; shard_depth + 2],
            deadline: None,
        }
    }

    pub fn explore(&mut self, stats: &mut Stats) {
        let mut hist = Vec::new();
        self.node(&mut hist, true, stats);
    }

    fn node(&mut self, hist: &mut Vec<H::Op>, mine: bool, stats: &mut Stats) {
        if let Some(d) = self.deadline {
            if crate::clock::wall_s() > d {
                stats.cap("wall-clock cap reached; enumeration incomplete");
                return;
            }
        }
        let k = hist.len();
        // ownership: nodes at depth <= shard_depth are enumerated by every shard (so that all
        // shards agree on indices and pruning) but counted by their owner only
        let owned = if k == 0 {
            self.shard.i == 0
        } else if k <= self.shard_depth {
            let idx = self.counters[k];
            self.counters[k] += 1;
            self.shard.owns(idx)
        } else {
            mine
        };
        let descend_all = k < self.shard_depth; // above the cut every shard walks everything
        if k > 0 {
            if !owned && !descend_all {
                return;
            }
            let mut scratch = Stats::default();
            let st: &mut Stats = if owned { &mut *stats } else { &mut scratch };
            st.evaluations += 1;
            st.transitions += 1;
            st.max_depth = st.max_depth.max(k);
            let mut known_continue = false;
            // an execution that aborts the process (a panic while another one unwinds) or never returns is
            // reported as a violation of the history in flight instead of losing the shard
            if owned {
                if let Some(p) = CURRENT_PROP.get() {
                    crate::util::watch(p, "hang: an operation never returns", &self.h.config_name(), hist.iter().map(|o| self.h.show(o)).collect(), 60.0);
                }
            }
            let verdict = self.h.run(hist, st);
            if owned {
                crate::util::unwatch();
            }
            match verdict {
                Verdict::Ok { hash, nontrivial } => {
                    st.state(hash, nontrivial);
                    if st.samples.len() < 6 && (st.transitions % 97 == 1) {
                        let s: Vec<String> = hist.iter().map(|o| self.h.show(o)).collect();
                        st.sample(json!(s));
                    }
                }
                Verdict::Bad(v) => {
                    // determinism: the same history must fail the same way again
                    let mut s2 = Stats::default();
                    match self.h.run(hist, &mut s2) {
                        Verdict::Bad(v2) if v2.class == v.class && v2.detail == v.detail => {
                            // a known finding does not end the exploration below it
                            let known = KNOWN_CLASSES.get().map_or(false, |k| k.contains(&v.class));
                            st.violation(v);
                            if known {
                                st.bump("extended_below_known_findings", 1);
                                known_continue = true;
                            } else {
                                st.pruned += 1;
                            }
                        }
                        _ => st.machinery(format!(
                            "non-deterministic verdict on replay of {:?}",
                            hist.iter().map(|o| self.h.show(o)).collect::<Vec<_>>()
                        )),
                    }
                    if !known_continue {
                        return;
                    }
                }
                Verdict::Machinery(m) => {
                    st.machinery(m);
                    return;
                }
            }
        }
        if k >= self.depth {
            return;
        }
        for op in self.h.alphabet(hist) {
            hist.push(op);
            self.node(hist, owned, stats);
            hist.pop();
        }
    }
}
