//! C15 — human-readable formatters are total and faithful (ENUM, boundary-exhaustive).

use crate::report::{hash_of, Shard, Stats, Violation};
use crate::util::{catch, panic_class};
use crate::{Meta, Tier};
use indicatif::{BinaryBytes, DecimalBytes, FormattedDuration, HumanBytes, HumanCount, HumanDuration, HumanFloatCount};
use serde_json::{json, Value};
use std::time::Duration;

fn viol(class: &str, input: String, detail: String) -> Violation {
    Violation { class: class.into(), config: "C15".into(), history: vec![input], detail }
}

fn group(digits: &str) -> String {
    let n = digits.len();
    let mut s = String::new();
    for (i, c) in digits.chars().enumerate() {
        s.push(c);
        let rest = n - i - 1;
        if rest > 0 && rest % 3 == 0 {
            s.push(',');
        }
    }
    s
}

fn u64_cases(tier: Tier) -> Vec<u64> {
    let mut v: Vec<u64> = (0..=if tier == Tier::Quick { 100_000 } else { 20_000_000 }).collect();
    let mut p: u128 = 1;
    for _ in 0..20 {
        for d in 1..=9u128 {
            for off in [-1i128, 0, 1] {
                let x = (d * p) as i128 + off;
                if x >= 0 && x <= u64::MAX as i128 {
                    v.push(x as u64);
                }
            }
        }
        p *= 10;
    }
    for k in 0..64 {
        for off in [-2i128, -1, 0, 1, 2] {
            let x = (1i128 << k) + off;
            if x >= 0 && x <= u64::MAX as i128 {
                v.push(x as u64);
            }
        }
    }
    v.extend([u64::MAX, u64::MAX - 1, u64::MAX / 2]);
    v
}

fn check_count(n: u64) -> Result<(u64, bool), Violation> {
    let s = catch(|| format!("{}", HumanCount(n))).map_err(|p| viol(&format!("panic: {}", panic_class(&p)), format!("HumanCount({n})"), p))?;
    let want = group(&n.to_string());
    if s != want {
        return Err(viol("HumanCount: wrong grouping", format!("HumanCount({n})"), format!("expected {want} got {s}")));
    }
    Ok((hash_of(&(s.len(), s.matches(',').count())), n >= 1000))
}

/// parse "value unit" and check the byte contract
fn check_bytes(n: u64, which: usize) -> Result<(u64, bool), Violation> {
    let name = ["HumanBytes", "BinaryBytes", "DecimalBytes"][which];
    let input = format!("{name}({n})");
    let s = catch(|| match which {
        0 => format!("{}", HumanBytes(n)),
        1 => format!("{}", BinaryBytes(n)),
        _ => format!("{}", DecimalBytes(n)),
    })
    .map_err(|p| viol(&format!("panic: {}", panic_class(&p)), input.clone(), p))?;
    let (val, unit) = s.split_once(' ').ok_or_else(|| viol("bytes: not 'value unit'", input.clone(), s.clone()))?;
    let binary = which != 2;
    let units: Vec<(&str, u128)> = if binary {
        vec![("B", 1), ("KiB", 1 << 10), ("MiB", 1 << 20), ("GiB", 1 << 30), ("TiB", 1 << 40), ("PiB", 1 << 50), ("EiB", 1 << 60), ("ZiB", 1 << 70)]
    } else {
        vec![("B", 1), ("kB", 1000), ("MB", 1000_000), ("GB", 1000_000_000), ("TB", 10u128.pow(12)), ("PB", 10u128.pow(15)), ("EB", 10u128.pow(18)), ("ZB", 10u128.pow(21))]
    };
    let Some(&(uname, usize_)) = units.iter().find(|(u, _)| *u == unit) else {
        return Err(viol("bytes: unknown unit", input, s));
    };
    // the largest unit with n >= unit (B for n < first prefix)
    let want = units.iter().rev().find(|(_, sz)| n as u128 >= *sz).map(|(u, _)| *u).unwrap_or("B");
    // the conversion to f64 (53 bits) may round n up to the next unit: that unit then fits too
    let idx_want = units.iter().position(|(u, _)| *u == want).unwrap();
    let rounds_up = idx_want + 1 < units.len() && units[idx_want + 1].0 == uname && (n as f64) as u128 >= units[idx_want + 1].1;
    if uname != want && !rounds_up {
        return Err(viol("bytes: not the largest fitting prefix", input, format!("{s}, expected unit {want}")));
    }
    if uname == "B" {
        if val != n.to_string() {
            return Err(viol("bytes: plain bytes must be the whole number", input, s));
        }
    } else {
        let Some((ip, fp)) = val.split_once('.') else { return Err(viol("bytes: two decimals expected", input, s)) };
        if fp.len() != 2 || !ip.bytes().all(|b| b.is_ascii_digit()) || !fp.bytes().all(|b| b.is_ascii_digit()) {
            return Err(viol("bytes: two decimals expected", input, s));
        }
        // |value*unit - n| <= 0.005*unit + n*2^-52  (exact integer arithmetic, hundredths)
        let hundredths: u128 = ip.parse::<u128>().unwrap() * 100 + fp.parse::<u128>().unwrap();
        let lhs = (hundredths * usize_) as i128 - (n as u128 * 100) as i128; // 100*(value*unit - n)
        let tol = (usize_ / 2) as i128 + ((n as u128 * 100) >> 50) as i128 + 1;
        if lhs.abs() > tol {
            return Err(viol("bytes: value is not the rounded quotient", input, format!("{s}: off by {lhs}/100 bytes, tolerance {tol}/100")));
        }
    }
    Ok((hash_of(&(which, uname, val.len())), n >= 1000))
}

fn check_formatted_duration(d: Duration) -> Result<(u64, bool), Violation> {
    let input = format!("FormattedDuration({:?})", d);
    let s = catch(|| format!("{}", FormattedDuration(d))).map_err(|p| viol(&format!("panic: {}", panic_class(&p)), input.clone(), p))?;
    // [Dd ]HH:MM:SS
    let (days, rest) = match s.split_once("d ") {
        Some((dd, r)) => (dd.parse::<u64>().map_err(|_| viol("FormattedDuration: shape", input.clone(), s.clone()))?, r),
        None => (0, s.as_str()),
    };
    let parts: Vec<&str> = rest.split(':').collect();
    if parts.len() != 3 || parts.iter().any(|p| p.len() != 2 || !p.bytes().all(|b| b.is_ascii_digit())) {
        return Err(viol("FormattedDuration: shape", input, s));
    }
    let (h, m, sec): (u64, u64, u64) = (parts[0].parse().unwrap(), parts[1].parse().unwrap(), parts[2].parse().unwrap());
    if h >= 24 || m >= 60 || sec >= 60 || (s.contains('d') && days == 0) {
        return Err(viol("FormattedDuration: field out of range", input, s));
    }
    let total = ((days as u128 * 24 + h as u128) * 60 + m as u128) * 60 + sec as u128;
    if total != d.as_secs() as u128 {
        return Err(viol("FormattedDuration: parse-back differs from whole seconds", input, format!("{s} = {total} s, expected {}", d.as_secs())));
    }
    Ok((hash_of(&(days > 0, h, s.len())), d.as_secs() >= 60))
}

const UNITS: [(&str, &str, u64); 6] = [("year", "y", 365 * 86400), ("week", "w", 7 * 86400), ("day", "d", 86400), ("hour", "h", 3600), ("minute", "m", 60), ("second", "s", 1)];

/// Reference for HumanDuration in exact milliseconds... nanoseconds.
fn human_ref(d: Duration) -> (u128, usize) {
    let ns = d.as_nanos();
    let mut idx = 5;
    for i in 0..5 {
        let cur = UNITS[i].2 as u128 * 1_000_000_000;
        let next = UNITS[i + 1].2 as u128 * 1_000_000_000;
        // switch to the smaller unit just below 1.5 units (minus half of the smaller unit)
        if ns + next / 2 >= cur + cur / 2 {
            idx = i;
            break;
        }
    }
    let unit = UNITS[idx].2 as u128 * 1_000_000_000;
    // nearest count (ties away from zero like f64::round)
    let mut t = (ns + unit / 2) / unit;
    if idx < 5 {
        t = t.max(2);
    }
    (t, idx)
}

fn check_human_duration(d: Duration, stats: &mut Stats) -> Result<(u64, bool, u128), Violation> {
    let input = format!("HumanDuration({:?})", d);
    let s = catch(|| format!("{}", HumanDuration(d))).map_err(|p| viol(&format!("panic: {}", panic_class(&p)), input.clone(), p))?;
    let a = catch(|| format!("{:#}", HumanDuration(d))).map_err(|p| viol(&format!("panic: {}", panic_class(&p)), input.clone(), p))?;
    let (cnt, name) = s.split_once(' ').ok_or_else(|| viol("HumanDuration: shape", input.clone(), s.clone()))?;
    let cnt: u128 = cnt.parse().map_err(|_| viol("HumanDuration: shape", input.clone(), s.clone()))?;
    let Some(idx) = UNITS.iter().position(|u| name == u.0 || name == format!("{}s", u.0)) else {
        return Err(viol("HumanDuration: unknown unit", input, s));
    };
    if (cnt == 1) != (name == UNITS[idx].0) {
        return Err(viol("HumanDuration: singular/plural", input, s));
    }
    if a != format!("{}{}", cnt, UNITS[idx].1) {
        return Err(viol("HumanDuration: alternate form disagrees with plain form", input, format!("{s} vs {a}")));
    }
    if cnt == 1 && idx < 5 {
        return Err(viol("HumanDuration: '1 unit' above seconds", input, s));
    }
    let (want_cnt, want_idx) = human_ref(d);
    // f64 rounding of the quotient: exact ties may differ by one only for astronomically large values
    let huge = d.as_secs() > (1u64 << 52);
    if idx != want_idx || (cnt != want_cnt && !(huge && cnt.abs_diff(want_cnt) <= (want_cnt >> 50) + 1)) {
        return Err(viol("HumanDuration: not the stated rounding rule", input, format!("{s}, expected {} {}", want_cnt, UNITS[want_idx].0)));
    }
    let _ = stats;
    let approx = cnt * UNITS[idx].2 as u128;
    Ok((hash_of(&(idx, cnt.min(200))), d.as_secs() >= 60, approx))
}

fn check_float(x: f64, prec: Option<usize>) -> Result<(u64, bool), Violation> {
    let input = format!("HumanFloatCount({x:e}) precision {:?}", prec);
    let s = catch(|| match prec {
        Some(p) => format!("{:.*}", p, HumanFloatCount(x)),
        None => format!("{}", HumanFloatCount(x)),
    })
    .map_err(|p| viol(&format!("panic: {}", panic_class(&p)), input.clone(), p))?;
    if !x.is_finite() {
        return Ok((hash_of(&s), false));
    }
    // reference: std's correctly rounded fixed-precision decimal, grouped, trailing zeros trimmed
    let p = prec.unwrap_or(4);
    let std = format!("{:.*}", p, x);
    let (neg, body) = match std.strip_prefix('-') {
        Some(b) => (true, b),
        None => (false, std.as_str()),
    };
    let (ip, fp) = body.split_once('.').unwrap_or((body, ""));
    let fp = fp.trim_end_matches('0');
    let mut want = String::new();
    if neg {
        want.push('-');
    }
    want.push_str(&group(ip));
    if !fp.is_empty() {
        want.push('.');
        want.push_str(fp);
    }
    if s != want {
        let class = if neg { "HumanFloatCount: wrong output for a negative value" } else if p == 0 { "HumanFloatCount: precision 0 is not rounded" } else { "HumanFloatCount: wrong output" };
        return Err(viol(class, input, format!("expected {want} got {s}")));
    }
    Ok((hash_of(&(s.len(), neg, fp.len())), x.abs() >= 1000.0))
}

/// A sink that accepts `left` characters and then fails.
struct Choke {
    left: usize,
    got: String,
}

impl std::fmt::Write for Choke {
    fn write_str(&mut self, s: &str) -> std::fmt::Result {
        for ch in s.chars() {
            if self.left == 0 {
                return Err(std::fmt::Error);
            }
            self.left -= 1;
            self.got.push(ch);
        }
        Ok(())
    }
}

fn choked<T: std::fmt::Display>(v: T, left: usize) -> String {
    use std::fmt::Write;
    let mut c = Choke { left, got: String::new() };
    let r = write!(c, "{}", v);
    format!("{:?} after {:?}", r.is_ok(), c.got)
}

/// A sink that, for every chunk it receives, formats another value of the same wrapper family into a
/// side buffer (a logging writer, a `Display` implemented in terms of another): the formatters are re-entrant.
struct Nested {
    got: String,
    side: String,
}

impl std::fmt::Write for Nested {
    fn write_str(&mut self, s: &str) -> std::fmt::Result {
        use std::fmt::Write;
        self.got.push_str(s);
        let _ = write!(self.side, "{}|{}|{}", HumanFloatCount(1234.5), HumanCount(7_654_321), HumanBytes(2048));
        Ok(())
    }
}

fn nested<T: std::fmt::Display>(v: T) -> String {
    use std::fmt::Write;
    let mut c = Nested { got: String::new(), side: String::new() };
    let r = write!(c, "{}", v);
    format!("{:?} {:?} side {:?}", r.is_ok(), c.got, c.side.len())
}

/// One formatter call of the history alphabet: label and the call itself.
fn history_alphabet() -> Vec<(String, Box<dyn Fn() -> String + Send + Sync>)> {
    let mut v: Vec<(String, Box<dyn Fn() -> String + Send + Sync>)> = Vec::new();
    // calls whose output sink fails after 3 characters (what was written before the failure is the result)
    v.push(("HumanCount(123456789) into a sink that fails after 3 characters".into(), Box::new(|| choked(HumanCount(123_456_789), 3))));
    v.push(("HumanFloatCount(-1234567.5) into a sink that fails after 3 characters".into(), Box::new(|| choked(HumanFloatCount(-1_234_567.5), 3))));
    v.push(("HumanBytes(123456789) into a sink that fails after 3 characters".into(), Box::new(|| choked(HumanBytes(123_456_789), 3))));
    v.push(("HumanDuration(90 s) into a sink that fails after 1 character".into(), Box::new(|| choked(HumanDuration(Duration::from_secs(90)), 1))));
    v.push(("FormattedDuration(90000 s) into a sink that fails after 3 characters".into(), Box::new(|| choked(FormattedDuration(Duration::from_secs(90_000)), 3))));
    // calls whose sink formats other values while it is being written to
    v.push(("HumanFloatCount(1234567.25) into a sink that formats other values for every chunk".into(), Box::new(|| nested(HumanFloatCount(1_234_567.25)))));
    v.push(("HumanCount(123456789) into a sink that formats other values for every chunk".into(), Box::new(|| nested(HumanCount(123_456_789)))));
    v.push(("HumanDuration(90 s) into a sink that formats other values for every chunk".into(), Box::new(|| nested(HumanDuration(Duration::from_secs(90))))));
    for x in [0.0f64, -0.0, 1234.5, -1234.5, 0.5, -0.5, 999.9995, f64::NAN, f64::INFINITY, f64::NEG_INFINITY, 1e15, 5e-324] {
        v.push((format!("HumanFloatCount({x:e})"), Box::new(move || format!("{}", HumanFloatCount(x)))));
        v.push((format!("HumanFloatCount({x:e}):.0"), Box::new(move || format!("{:.0}", HumanFloatCount(x)))));
        v.push((format!("HumanFloatCount({x:e}):.2"), Box::new(move || format!("{:.2}", HumanFloatCount(x)))));
    }
    for n in [0u64, 1, 999, 1000, 1023, 1024, 1_000_000, u64::MAX] {
        v.push((format!("HumanCount({n})"), Box::new(move || format!("{}", HumanCount(n)))));
        v.push((format!("HumanBytes({n})"), Box::new(move || format!("{}", HumanBytes(n)))));
        v.push((format!("BinaryBytes({n})"), Box::new(move || format!("{}", BinaryBytes(n)))));
        v.push((format!("DecimalBytes({n})"), Box::new(move || format!("{}", DecimalBytes(n)))));
    }
    for d in [Duration::ZERO, Duration::from_millis(999), Duration::from_secs(1), Duration::from_millis(89_499), Duration::from_millis(89_500), Duration::from_secs(3600), Duration::from_secs(86400), Duration::MAX] {
        v.push((format!("HumanDuration({d:?})"), Box::new(move || format!("{}", HumanDuration(d)))));
        v.push((format!("HumanDuration({d:?}):#"), Box::new(move || format!("{:#}", HumanDuration(d)))));
        v.push((format!("FormattedDuration({d:?})"), Box::new(move || format!("{}", FormattedDuration(d)))));
    }
    v
}

/// The wrappers are pure functions of their argument: the text printed for a value must not depend on
/// which formatter calls the same thread made before.  Expected texts come from one fresh thread per
/// call; every sequence of two calls runs on a fresh thread of its own, every sequence of three on
/// the current thread, and the last call of each sequence must print the fresh text.
fn history_independence(shard: Shard, stats: &mut Stats) {
    let alpha = std::sync::Arc::new(history_alphabet());
    let n = alpha.len();
    let fresh: Vec<Result<String, String>> = (0..n)
        .map(|i| {
            let a = alpha.clone();
            std::thread::spawn(move || catch(|| (a[i].1)())).join().unwrap_or_else(|_| Err("thread".into()))
        })
        .collect();
    let mut idx = 0u64;
    let mut judge = |stats: &mut Stats, hist: Vec<usize>, got: Result<String, String>| {
        let last = *hist.last().unwrap();
        let labels: Vec<String> = hist.iter().map(|&i| alpha[i].0.clone()).collect();
        match (&got, &fresh[last]) {
            (Err(p), _) => stats.violation(viol(&format!("panic: {}", panic_class(p)), labels.join("; "), p.clone())),
            (Ok(g), Ok(f)) if g != f => stats.violation(viol("history: a formatter prints a different text after other formatter calls on the same thread", labels.join("; "), format!("fresh thread prints {f:?}, after this history {g:?}"))),
            (Ok(g), _) => stats.state_outcome(hash_of(&("hist", last, g)), hist[0] != last),
        }
    };
    for i in 0..n {
        for j in 0..n {
            idx += 1;
            if !shard.owns(idx) {
                continue;
            }
            stats.evaluations += 1;
            stats.transitions += 2;
            let a = alpha.clone();
            let got = std::thread::spawn(move || {
                let _ = catch(|| (a[i].1)());
                catch(|| (a[j].1)())
            })
            .join()
            .unwrap_or_else(|_| Err("thread".into()));
            judge(stats, vec![i, j], got);
        }
    }
    for i in 0..n {
        for j in 0..n {
            idx += 1;
            if !shard.owns(idx) {
                continue;
            }
            for k in 0..n {
                stats.evaluations += 1;
                stats.transitions += 3;
                let _ = catch(|| (alpha[i].1)());
                let _ = catch(|| (alpha[j].1)());
                let got = catch(|| (alpha[k].1)());
                judge(stats, vec![i, j, k], got);
            }
        }
    }
}

pub fn run(tier: Tier, shard: Shard, stats: &mut Stats) {
    let mut idx = 0u64;
    let mut own = |stats: &mut Stats| {
        idx += 1;
        let o = shard.owns(idx);
        if o {
            stats.evaluations += 1;
            stats.transitions += 1;
        }
        o
    };
    let put = |stats: &mut Stats, r: Result<(u64, bool), Violation>| match r {
        Ok((h, nt)) => stats.state_outcome(h, nt),
        Err(v) => stats.violation(v),
    };
    for n in u64_cases(tier) {
        if own(stats) {
            put(stats, check_count(n));
            for w in 0..3 {
                put(stats, check_bytes(n, w));
            }
        }
    }
    // every unit boundary of the byte wrappers +-2
    for k in 1..=6u32 {
        for base in [1024u128.pow(k), 1000u128.pow(k)] {
            for off in -2i128..=2 {
                let x = base as i128 + off;
                if x > 0 && x <= u64::MAX as i128 && own(stats) {
                    for w in 0..3 {
                        put(stats, check_bytes(x as u64, w));
                    }
                }
            }
        }
    }
    // floats
    let floats: Vec<f64> = {
        let mut v = vec![0.0, 0.5, 0.05, 0.00005, 0.99995, 999.9995, 999.5, 1234.5, 1234.9, 1234.4999, 123456.7, 123456.0, 1e15, 1e15 + 0.5, 9.5, 99.5, 999999.5, 1e300, f64::MIN_POSITIVE, 5e-324, 1e21, 123456789012345680000.0, 0.1 + 0.2, 2.5, 3.5];
        let neg: Vec<f64> = v.iter().map(|x| -x).collect();
        v.extend(neg);
        v.extend([f64::NAN, f64::INFINITY, f64::NEG_INFINITY, f64::MAX, f64::MIN]);
        for k in 0..=18 {
            v.push(10f64.powi(k) - 0.5);
            v.push(-(10f64.powi(k)));
        }
        v
    };
    for &x in &floats {
        for p in std::iter::once(None).chain((0..=25).map(Some)) {
            if own(stats) {
                put(stats, check_float(x, p));
            }
        }
    }
    // FormattedDuration: 0..=200_000 s exhaustively, boundaries, MAX
    let mut fds: Vec<Duration> = (0..=if tier == Tier::Quick { 200_000u64 } else { 20_000_000 }).map(Duration::from_secs).collect();
    for u in [60u64, 3600, 86400, 86400 * 365, 86400 * 1000] {
        for k in [1u64, 2, 10, 99, 100, 1000] {
            for off in [-1i64, 0, 1] {
                fds.push(Duration::from_secs((u * k).wrapping_add_signed(off)));
            }
        }
    }
    fds.push(Duration::MAX);
    fds.push(Duration::new(u64::MAX, 0));
    fds.push(Duration::from_millis(999));
    fds.push(Duration::from_nanos(59_999_999_999));
    for d in fds {
        if own(stats) {
            put(stats, check_formatted_duration(d));
        }
    }
    // HumanDuration: 0..=200 s in 1 ms steps; around every (n + 1/2) unit and every unit switch; MAX
    let mut hd: Vec<Duration> = (0..=200_000u64).map(Duration::from_millis).collect();
    if tier == Tier::Thorough {
        hd.extend((200_001..=40_000_000u64).map(Duration::from_millis));
    }
    for i in 0..6 {
        let unit_ms = UNITS[i].2 as i128 * 1000;
        for n in 1..=120i128 {
            for off in -2..=2i128 {
                hd.push(Duration::from_millis((unit_ms * n + unit_ms / 2 + off) as u64));
                hd.push(Duration::from_millis((unit_ms * n + off).max(0) as u64));
            }
        }
        if i < 5 {
            let next_ms = UNITS[i + 1].2 as i128 * 1000;
            for off in -2..=2i128 {
                hd.push(Duration::from_millis((unit_ms * 3 / 2 - next_ms / 2 + off) as u64));
            }
        }
    }
    hd.push(Duration::MAX);
    hd.push(Duration::new(u64::MAX / 2, 999_999_999));
    hd.push(Duration::from_nanos(499_999_999));
    hd.push(Duration::from_nanos(500_000_000));
    hd.push(Duration::from_nanos(1_499_999_999));
    hd.sort();
    hd.dedup();
    // monotonicity over the sorted set (checked by shard 0 over everything; cheap)
    let mut prev: Option<(Duration, u128)> = None;
    for d in hd {
        let mine = own(stats);
        if !mine && shard.i != 0 {
            continue;
        }
        let mut scratch = Stats::default();
        match check_human_duration(d, &mut scratch) {
            Ok((h, nt, approx)) => {
                if mine {
                    stats.state_outcome(h, nt);
                }
                if shard.i == 0 {
                    if let Some((pd, pa)) = prev {
                        if approx < pa {
                            stats.violation(viol("HumanDuration: not monotone in the duration", format!("{:?} then {:?}", pd, d), format!("{pa} s then {approx} s")));
                        }
                    }
                    prev = Some((d, approx));
                }
            }
            Err(v) => {
                if mine {
                    stats.violation(v)
                }
            }
        }
    }
    // a precision (or a width) in the format spec: the count and the unit are never cut off
    for d in [Duration::from_secs(2), Duration::from_secs(59), Duration::from_secs(720), Duration::from_secs(90_000), Duration::MAX] {
        if own(stats) {
            let plain = format!("{}", HumanDuration(d));
            let alt = format!("{:#}", HumanDuration(d));
            for (spec, got, want) in [
                ("{:.0}", format!("{:.0}", HumanDuration(d)), &plain),
                ("{:.2}", format!("{:.2}", HumanDuration(d)), &plain),
                ("{:#.1}", format!("{:#.1}", HumanDuration(d)), &alt),
                ("{:>4.3}", format!("{:>4.3}", HumanDuration(d)), &plain),
            ] {
                if got.trim() != want.as_str() {
                    stats.violation(viol("HumanDuration: a precision in the format spec cuts the text", format!("HumanDuration({d:?}) with {spec}"), format!("{got:?}, plain form {want:?}")));
                }
            }
            let fd = format!("{}", FormattedDuration(d));
            let got = format!("{:.1}", FormattedDuration(d));
            if got.trim() != fd {
                stats.violation(viol("FormattedDuration: a precision in the format spec cuts the text", format!("FormattedDuration({d:?}) with {{:.1}}"), format!("{got:?}, plain form {fd:?}")));
            }
        }
    }
    for n in [0u64, 999, 1_234_567, u64::MAX] {
        if own(stats) {
            for (name, plain, got) in [
                ("HumanCount", format!("{}", HumanCount(n)), format!("{:.1}", HumanCount(n))),
                ("HumanBytes", format!("{}", HumanBytes(n)), format!("{:.1}", HumanBytes(n))),
                ("DecimalBytes", format!("{}", DecimalBytes(n)), format!("{:.0}", DecimalBytes(n))),
                ("BinaryBytes", format!("{}", BinaryBytes(n)), format!("{:.3}", BinaryBytes(n))),
            ] {
                if got.trim() != plain {
                    stats.violation(viol("bytes/count: a precision in the format spec changes the text", format!("{name}({n}) with a precision"), format!("{got:?}, plain form {plain:?}")));
                }
            }
        }
    }
    history_independence(shard, stats);
    stats.sample(json!("HumanCount(1234567) == 1,234,567"));
    stats.sample(json!("HumanDuration(89.5 s +- 2 ms), FormattedDuration(86399 s, 86400 s)"));
}

pub fn meta(_tier: Tier) -> Meta {
    Meta {
        level: "exploration",
        rule: "boundary-exhaustive enumeration: HumanCount and the three byte wrappers on 0..=1e5 (2e6 thorough), every d*10^k+-1, 2^k+-2, unit boundaries +-2, u64::MAX; HumanFloatCount on 95 values x precisions default,0..=25; FormattedDuration on every second of 0..=200000 (2e6) plus boundaries and Duration::MAX; HumanDuration on every millisecond of 0..=200 s (4000 s) plus (n+1/2)*unit+-2 ms for n<=120 and every unit switch, plain and alternate; plus every sequence of two and of three calls over a 97-call alphabet (incl. calls whose sink fails part-way) of all seven wrappers (signed zeros, NaN, infinities, unit boundaries), whose last call must print what a fresh thread prints. Oracle: parse-back against exact integer references; distinct = distinct (unit, magnitude class) outputs; non-trivial = value beyond the first grouping/unit boundary".into(),
        assumptions: vec!["HumanFloatCount reference = std's correctly rounded fixed-precision formatting, grouped, trailing zeros trimmed, sign in front".into()],
        bounds: json!({}),
        exhaustive: true,
    }
}

pub fn replay(v: &Value) -> i32 {
    println!("input: {}\nrecorded: {}", v["history"][0], v["detail"]);
    println!("re-run `bin/check C15 --tier quick` to re-evaluate (inputs are enumerated, not parsed)");
    1
}
