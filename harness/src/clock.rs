//! Virtual monotonic clock by link-time interposition (DESIGN §2.2).
//!
//! std's `Instant::now()` on linux-gnu calls the libc symbol `clock_gettime(CLOCK_MONOTONIC)`.
//! Defining the symbol in the harness binary makes the *unmodified* indicatif crate read a clock
//! the harness owns.  Other clock ids go to the raw syscall.

use std::sync::atomic::{AtomicBool, AtomicU64, Ordering};

/// Virtual seconds at offset 0 (large enough that `Instant - Duration` never underflows).
pub const BASE_SECS: i64 = 1_000_000;

static OFFSET_NS: AtomicU64 = AtomicU64::new(0);
static VIRTUAL: AtomicBool = AtomicBool::new(true);
static QUERIES: AtomicU64 = AtomicU64::new(0);
static STEP_NS: AtomicU64 = AtomicU64::new(0);
/// Called on every reading of the virtual clock (the schedule explorer makes readings visible to itself).
static READ_HOOK: std::sync::atomic::AtomicUsize = std::sync::atomic::AtomicUsize::new(0);

#[allow(dead_code)]
pub fn set_read_hook(f: Option<fn()>) {
    READ_HOOK.store(f.map_or(0, |f| f as usize), Ordering::SeqCst);
}

/// Make every clock reading advance the virtual clock by `ns` (0 = frozen between explicit advances).
#[allow(dead_code)]
pub fn set_step_ns(ns: u64) {
    STEP_NS.store(ns, Ordering::Relaxed);
}

#[no_mangle]
pub unsafe extern "C" fn clock_gettime(clk: libc::clockid_t, ts: *mut libc::timespec) -> libc::c_int {
    if clk == libc::CLOCK_MONOTONIC && VIRTUAL.load(Ordering::Relaxed) {
        QUERIES.fetch_add(1, Ordering::Relaxed);
        let hook = READ_HOOK.load(Ordering::SeqCst);
        if hook != 0 {
            let f: fn() = std::mem::transmute::<usize, fn()>(hook);
            f();
        }
        // optional: every reading of the clock takes some (virtual) time
        let step = STEP_NS.load(Ordering::Relaxed);
        let off = if step == 0 { OFFSET_NS.load(Ordering::Relaxed) } else { OFFSET_NS.fetch_add(step, Ordering::Relaxed) + step };
        (*ts).tv_sec = BASE_SECS + (off / 1_000_000_000) as i64;
        (*ts).tv_nsec = (off % 1_000_000_000) as i64;
        return 0;
    }
    libc::syscall(libc::SYS_clock_gettime, clk, ts) as libc::c_int
}

/// Reset the virtual clock to BASE (start of every history).
pub fn reset() {
    OFFSET_NS.store(0, Ordering::Relaxed);
}

pub fn advance_ns(ns: u64) {
    OFFSET_NS.fetch_add(ns, Ordering::Relaxed);
}

pub fn advance_ms(ms: u64) {
    advance_ns(ms * 1_000_000);
}

pub fn now_ns() -> u64 {
    OFFSET_NS.load(Ordering::Relaxed)
}

pub fn set_ns(ns: u64) {
    OFFSET_NS.store(ns, Ordering::Relaxed);
}

#[allow(dead_code)]
pub fn queries() -> u64 {
    QUERIES.load(Ordering::Relaxed)
}

/// Machinery self-test: `Instant::now()` must follow the virtual clock, else exit 2.
pub fn assert_owned() {
    reset();
    let a = std::time::Instant::now();
    let b = std::time::Instant::now();
    advance_ns(5_000_001);
    let c = std::time::Instant::now();
    reset();
    if b.duration_since(a).as_nanos() != 0 || c.duration_since(a).as_nanos() != 5_000_001 {
        eprintln!("MACHINERY-ERROR: Instant::now() does not follow the interposed clock_gettime");
        std::process::exit(2);
    }
}

/// Real elapsed seconds for durations and deadlines (not the interposed virtual clock).
pub fn wall_s() -> f64 {
    // (durations and deadlines only: a wall clock that is stepped while a check runs would end watched
    // executions early)
    mono_s()
}

/// Real monotonic seconds straight from the kernel (CLOCK_MONOTONIC_RAW through the raw syscall: neither
/// the interposed virtual clock nor a wall clock that can be stepped while a check runs).
pub fn mono_s() -> f64 {
    let mut ts = libc::timespec { tv_sec: 0, tv_nsec: 0 };
    unsafe {
        libc::syscall(libc::SYS_clock_gettime, libc::CLOCK_MONOTONIC_RAW, &mut ts as *mut libc::timespec);
    }
    ts.tv_sec as f64 + ts.tv_nsec as f64 / 1e9
}
