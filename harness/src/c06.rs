//! C06 — hidden or non-terminal targets are silent and state-equivalent (HIST twin).
//!
//! Every history runs on a visible twin (spy target) and on each hidden flavour; the hidden runs
//! must never call the terminal and their getters must equal the twin's after every operation.

use crate::barops::{apply, getters, style, BOp, Fin};
use crate::report::{hash_of, Dfs, Hist, Shard, Stats, Verdict, Violation};
use crate::term::Spy;
use crate::util::{catch, panic_class};
use crate::{clock, Meta, Tier};
use indicatif::{MultiProgress, ProgressBar, ProgressDrawTarget};
use serde_json::{json, Value};
use std::os::unix::io::AsRawFd;

#[derive(Clone, Copy, Debug, PartialEq)]
pub enum Flavour {
    HiddenTarget,
    NotATty,
    NotATtyHz,
    HiddenMulti,
    RemovedFromMulti,
    /// member of a MultiProgress on a stderr that is not a TTY (the bar can be removed, which leaves the
    /// MultiProgress empty; MultiProgress::println is in the alphabet)
    NotATtyMulti,
    /// a `console::Term` made of a read/write pair of files (not a TTY)
    ReadWritePair,
    /// `ProgressDrawTarget::stdout_with_hz` while stdout is /dev/null and stderr is a terminal (a pty)
    StdoutNotATtyStderrTty,
    /// member of a visible MultiProgress that is then added to a hidden MultiProgress (at Op::Remove)
    MovedToHiddenMulti,
    /// a bar on a stderr Term that was not a terminal when the Term was made; at Op::Remove fd 2 is
    /// pointed at a pseudo terminal: the bar is still hidden (`is_hidden()` stays true) and stays silent
    StderrBecomesTty,
    /// a bar on a buffered stderr Term (not a terminal) that holds unflushed bytes of the program: no call
    /// on the bar may push them out
    BufferedNotATty,
    /// member of a hidden MultiProgress, removed, after which the MultiProgress is given a visible target
    RemovedFromHiddenMultiThenShown,
    /// `ProgressBar::hidden()` as it comes (no with_finish, length set afterwards) against a visible bar that
    /// was not configured either: the defaults of a hidden bar are those of a visible one
    HiddenConstructor,
    /// a visible bar that is given `ProgressDrawTarget::hidden()` with set_draw_target (at Op::Remove)
    SwitchedToHidden,
}

#[derive(Clone, Debug, PartialEq)]
pub enum Op {
    B(BOp),
    /// only meaningful for the RemovedFromMulti flavour: the point at which the bar is removed
    Remove,
    /// the same, with the k-th terminal call made during the removal failing once
    RemoveFaulty(u8),
    /// MultiProgress::println on the subject's MultiProgress
    MpPrintln,
    /// new bars inserted after and before the subject in its MultiProgress and ticked
    /// (insert_after / insert_before / insert_from_back)
    MpInsertAround,
}

pub struct C06 {
    pub flavour: Flavour,
    pub fin: Fin,
    pub reduced: bool,
}

static STDERR_FILE: std::sync::OnceLock<std::fs::File> = std::sync::OnceLock::new();

/// Redirect fd 2 to a file so that "not a TTY" holds and anything written to it is observable.
fn redirect_stderr() -> &'static std::fs::File {
    STDERR_FILE.get_or_init(|| {
        let dir = "/verif/harness/target/tmp";
        let _ = std::fs::create_dir_all(dir);
        let path = format!("{dir}/stderr-{}.txt", std::process::id());
        let f = std::fs::OpenOptions::new().create(true).write(true).read(true).truncate(true).open(&path).expect("stderr file");
        unsafe {
            libc::dup2(f.as_raw_fd(), 2);
        }
        let _ = std::fs::remove_file(&path);
        f
    })
}

/// Restores fd 1 and fd 2 when the history is over (also on the early-return paths).
struct FdGuard(Option<(i32, i32)>);

impl Drop for FdGuard {
    fn drop(&mut self) {
        if let Some((o1, o2)) = self.0.take() {
            unsafe {
                libc::dup2(o1, 1);
                libc::dup2(o2, 2);
                libc::close(o1);
                libc::close(o2);
            }
        }
    }
}

/// A pseudo terminal whose slave end can be put on fd 2: (master fd, slave fd).
static PTY: std::sync::OnceLock<Option<(i32, i32)>> = std::sync::OnceLock::new();

/// None where the sandbox offers no pseudo terminals (the flavour that needs one is then skipped and
/// the evidence says so).
fn pty_opt() -> Option<(i32, i32)> {
    *PTY.get_or_init(|| unsafe {
        let m = libc::posix_openpt(libc::O_RDWR | libc::O_NOCTTY);
        if m < 0 || libc::grantpt(m) != 0 || libc::unlockpt(m) != 0 {
            return None;
        }
        let name = libc::ptsname(m);
        if name.is_null() {
            return None;
        }
        let s = libc::open(name, libc::O_RDWR | libc::O_NOCTTY);
        if s < 0 || libc::isatty(s) != 1 {
            return None;
        }
        let fl = libc::fcntl(m, libc::F_GETFL);
        libc::fcntl(m, libc::F_SETFL, fl | libc::O_NONBLOCK);
        Some((m, s))
    })
}

fn pty() -> (i32, i32) {
    pty_opt().expect("pty")
}

/// Bytes that arrived on the pty master since the last call.
fn pty_drain() -> usize {
    let (m, _) = pty();
    let mut n = 0usize;
    let mut buf = [0u8; 4096];
    loop {
        let k = unsafe { libc::read(m, buf.as_mut_ptr() as *mut libc::c_void, buf.len()) };
        if k <= 0 {
            break;
        }
        n += k as usize;
    }
    n
}

fn stderr_len() -> u64 {
    redirect_stderr().metadata().map(|m| m.len()).unwrap_or(0)
}

impl C06 {
    fn config(&self) -> String {
        format!("{:?} on_finish={:?}", self.flavour, self.fin)
    }
}

impl Hist for C06 {
    type Op = Op;

    fn alphabet(&self, prefix: &[Op]) -> Vec<Op> {
        let mut v: Vec<BOp> = vec![
            BOp::Tick,
            BOp::Inc(1),
            BOp::Inc(7),
            BOp::Dec(1),
            BOp::SetPos(9),
            BOp::SetLen(3),
            BOp::IncLen(2),
            BOp::DecLen(4),
            BOp::UnsetLen,
            BOp::Msg("m\tn"),
            BOp::Prefix("p"),
            BOp::Style(1),
            BOp::TabWidth(2),
            BOp::TabWidth(8),
            BOp::Println("log"),
            BOp::SuspendEmpty,
            BOp::Reset,
            BOp::ResetEta,
            BOp::ForceDraw,
            BOp::Finish,
            BOp::FinishClear,
            BOp::FinishMsg("done"),
            BOp::Abandon,
            BOp::AbandonMsg("ab"),
            BOp::FinishUsingStyle,
            BOp::UpdatePos(4),
            BOp::WrapIter3,
        ];
        if self.reduced {
            v.retain(|o| !matches!(o, BOp::Inc(7) | BOp::Dec(1) | BOp::IncLen(_) | BOp::Style(_) | BOp::ResetEta | BOp::AbandonMsg(_) | BOp::FinishMsg(_) | BOp::UpdatePos(_) | BOp::Prefix(_)));
        }
        let mut out: Vec<Op> = v.into_iter().map(Op::B).collect();
        if matches!(self.flavour, Flavour::RemovedFromHiddenMultiThenShown | Flavour::NotATtyMulti | Flavour::MovedToHiddenMulti | Flavour::StderrBecomesTty | Flavour::SwitchedToHidden) && !prefix.iter().any(|o| matches!(o, Op::Remove)) {
            out.insert(0, Op::Remove);
        }
        if matches!(self.flavour, Flavour::HiddenMulti | Flavour::NotATtyMulti) {
            out.insert(0, Op::MpPrintln);
            if !prefix.iter().any(|o| matches!(o, Op::Remove)) {
                out.insert(1, Op::MpInsertAround);
            }
        }
        if self.flavour == Flavour::RemovedFromMulti && !prefix.iter().any(|o| matches!(o, Op::Remove | Op::RemoveFaulty(_))) {
            out.insert(0, Op::Remove);
            for k in 0..4u8 {
                out.insert(1, Op::RemoveFaulty(k));
            }
        }
        out
    }

    fn run(&self, hist: &[Op], stats: &mut Stats) -> Verdict {
        if matches!(self.flavour, Flavour::StdoutNotATtyStderrTty | Flavour::StderrBecomesTty) && pty_opt().is_none() {
            stats.bump("skipped_no_pseudo_terminal_available", 1);
            return Verdict::Ok { hash: 0, nontrivial: false };
        }
        clock::reset();
        redirect_stderr();
        let err0 = stderr_len();
        // visible twin
        let twin_spy = Spy::new(40, 30, false);
        let twin = if self.flavour == Flavour::HiddenConstructor {
            let t = ProgressBar::with_draw_target(None, ProgressDrawTarget::term_like(twin_spy.boxed())).with_style(style(2));
            t.set_length(5);
            t
        } else {
            ProgressBar::with_draw_target(Some(5), ProgressDrawTarget::term_like(twin_spy.boxed())).with_style(style(2)).with_finish(self.fin.real())
        };
        // hidden subject
        let spy = Spy::new(40, 30, false);
        let mut mp: Option<MultiProgress> = None;
        let mut pair_file: Option<std::fs::File> = None;
        let mut hidden_mp: Option<MultiProgress> = None;
        let mut held_term: Option<console::Term> = None;
        let mut saved_fds = FdGuard(None);
        let mk = || ProgressBar::with_draw_target(Some(5), ProgressDrawTarget::hidden()).with_style(style(2)).with_finish(self.fin.real());
        let subject = match self.flavour {
            Flavour::HiddenTarget => mk(),
            Flavour::SwitchedToHidden => ProgressBar::with_draw_target(Some(5), ProgressDrawTarget::term_like(spy.boxed())).with_style(style(2)).with_finish(self.fin.real()),
            Flavour::HiddenConstructor => {
                let b = ProgressBar::hidden().with_style(style(2));
                b.set_length(5);
                b
            }
            Flavour::NotATty => ProgressBar::new(5).with_style(style(2)).with_finish(self.fin.real()),
            Flavour::NotATtyHz => ProgressBar::with_draw_target(Some(5), ProgressDrawTarget::stderr_with_hz(255)).with_style(style(2)).with_finish(self.fin.real()),
            Flavour::HiddenMulti => {
                let m = MultiProgress::with_draw_target(ProgressDrawTarget::hidden());
                let b = m.add(mk());
                let _sibling = m.add(mk());
                mp = Some(m);
                b
            }
            Flavour::RemovedFromMulti => {
                let m = MultiProgress::with_draw_target(ProgressDrawTarget::term_like(spy.boxed()));
                let b = m.add(mk());
                mp = Some(m);
                b
            }
            Flavour::NotATtyMulti => {
                let m = MultiProgress::new();
                let b = m.add(mk());
                mp = Some(m);
                b
            }
            Flavour::ReadWritePair => {
                let dir = "/verif/harness/target/tmp";
                let _ = std::fs::create_dir_all(dir);
                let path = format!("{dir}/pair-{}.txt", std::process::id());
                let wfile = std::fs::OpenOptions::new().create(true).write(true).read(true).truncate(true).open(&path).expect("pair file");
                pair_file = Some(wfile.try_clone().expect("clone"));
                let _ = std::fs::remove_file(&path);
                let term = console::Term::read_write_pair(std::fs::File::open("/dev/null").expect("devnull"), wfile);
                ProgressBar::with_draw_target(Some(5), ProgressDrawTarget::term(term, 20)).with_style(style(2)).with_finish(self.fin.real())
            }
            Flavour::StdoutNotATtyStderrTty => {
                // fd 1 -> /dev/null, fd 2 -> pty slave for the duration of this history
                let (_, slave) = pty();
                unsafe {
                    saved_fds.0 = Some((libc::dup(1), libc::dup(2)));
                    let dn = libc::open(b"/dev/null\0".as_ptr() as *const libc::c_char, libc::O_WRONLY);
                    libc::dup2(dn, 1);
                    libc::close(dn);
                    libc::dup2(slave, 2);
                }
                pty_drain();
                ProgressBar::with_draw_target(Some(5), ProgressDrawTarget::stdout_with_hz(200)).with_style(style(2)).with_finish(self.fin.real())
            }
            Flavour::StderrBecomesTty => {
                let _ = pty();
                unsafe {
                    saved_fds.0 = Some((libc::dup(1), libc::dup(2)));
                }
                pty_drain();
                ProgressBar::with_draw_target(Some(5), ProgressDrawTarget::term(console::Term::stderr(), 200)).with_style(style(2)).with_finish(self.fin.real())
            }
            Flavour::BufferedNotATty => {
                let term = console::Term::buffered_stderr();
                let _ = term.write_str("bytes of the program, not flushed yet");
                held_term = Some(term.clone());
                ProgressBar::with_draw_target(Some(5), ProgressDrawTarget::term(term, 200)).with_style(style(2)).with_finish(self.fin.real())
            }
            Flavour::MovedToHiddenMulti => {
                let m = MultiProgress::with_draw_target(ProgressDrawTarget::term_like(spy.boxed()));
                let b = m.add(mk());
                mp = Some(m);
                hidden_mp = Some(MultiProgress::with_draw_target(ProgressDrawTarget::hidden()));
                b
            }
            Flavour::RemovedFromHiddenMultiThenShown => {
                let m = MultiProgress::with_draw_target(ProgressDrawTarget::hidden());
                let b = m.add(mk());
                mp = Some(m);
                b
            }
        };
        let shown: Vec<String> = hist.iter().map(|o| format!("{:?}", o)).collect();
        let mut removed_calls: Option<u64> = None;
        let mut last_err: Option<(String, String)> = None;
        for (i, op) in hist.iter().enumerate() {
            clock::advance_ms(3);
            let r = catch(|| match op {
                Op::B(b) => {
                    apply(&twin, b);
                    apply(&subject, b);
                }
                Op::Remove if self.flavour == Flavour::StderrBecomesTty => {
                    let (_, slave) = pty();
                    unsafe {
                        libc::dup2(slave, 2);
                    }
                    pty_drain();
                }
                Op::Remove if self.flavour == Flavour::SwitchedToHidden => {
                    subject.set_draw_target(ProgressDrawTarget::hidden());
                }
                Op::Remove if self.flavour == Flavour::MovedToHiddenMulti => {
                    let _ = hidden_mp.as_ref().unwrap().add(subject.clone());
                }
                Op::Remove => {
                    mp.as_ref().unwrap().remove(&subject);
                    if self.flavour == Flavour::RemovedFromHiddenMultiThenShown {
                        mp.as_ref().unwrap().set_draw_target(ProgressDrawTarget::term_like(spy.boxed()));
                    }
                }
                Op::MpPrintln => {
                    let _ = mp.as_ref().unwrap().println("two\nlines");
                }
                Op::MpInsertAround => {
                    let m = mp.as_ref().unwrap();
                    let x = m.insert_after(&subject, mk());
                    let y = m.insert_before(&subject, mk());
                    let z = m.insert_from_back(1, mk());
                    x.tick();
                    y.inc(1);
                    z.finish();
                }
                Op::RemoveFaulty(k) => {
                    let at = spy.st().fallible_calls + *k as usize;
                    spy.st().fault = crate::term::Fault::Once(at);
                    mp.as_ref().unwrap().remove(&subject);
                    spy.st().fault = crate::term::Fault::None;
                }
            });
            if let Err(p) = r {
                let _ = catch(move || drop((twin, subject, mp)));
                return Verdict::Bad(Violation { class: format!("panic: {}", panic_class(&p)), config: self.config(), history: shown[..=i].to_vec(), detail: p });
            }
            if matches!(op, Op::Remove | Op::RemoveFaulty(_)) {
                removed_calls = Some(spy.calls());
            }
            if i + 1 == hist.len() {
                // silence
                let silent = match self.flavour {
                    Flavour::RemovedFromMulti | Flavour::MovedToHiddenMulti | Flavour::SwitchedToHidden => removed_calls.map_or(true, |c| spy.calls() == c),
                    // hidden until the removal; whatever giving the MultiProgress a terminal does is
                    // not the bar's doing, every later call on the removed bar must be silent
                    Flavour::RemovedFromHiddenMultiThenShown => removed_calls.map_or(spy.calls() == 0, |c| spy.calls() == c),
                    _ => spy.calls() == 0,
                };
                let pair_bytes = pair_file.as_ref().and_then(|f| f.metadata().ok()).map_or(0, |m| m.len());
                let pty_bytes = if matches!(self.flavour, Flavour::StdoutNotATtyStderrTty | Flavour::StderrBecomesTty) { pty_drain() } else { 0 };
                if pair_bytes > 0 {
                    last_err = Some(("silence: bytes were written to a Term (read/write pair) that is not a TTY".into(), format!("{pair_bytes} bytes")));
                } else if pty_bytes > 0 {
                    last_err = Some(("silence: a bar on a stdout that is not a TTY wrote to the terminal on stderr".into(), format!("{pty_bytes} bytes")));
                } else if !silent {
                    last_err = Some(("silence: a hidden bar invoked a terminal operation".into(), format!("spy calls {} (at removal: {:?})", spy.calls(), removed_calls)));
                } else if stderr_len() != err0 {
                    last_err = Some(("silence: bytes were written to a stderr that is not a TTY".into(), format!("{} bytes", stderr_len() - err0)));
                } else {
                    match catch(|| (getters(&twin), getters(&subject))) {
                        Err(p) => last_err = Some((format!("panic in getter: {}", panic_class(&p)), p)),
                        Ok((a, b)) => {
                            if a != b {
                                last_err = Some(("state: getters of the hidden bar differ from the visible twin's".into(), format!("visible {:?} hidden {:?}", a, b)));
                            }
                        }
                    }
                }
            }
        }
        drop(saved_fds);
        let g = catch(|| getters(&subject)).ok();
        let hidden_now = catch(|| subject.is_hidden()).unwrap_or(false);
        let _ = catch(move || drop((twin, subject, mp, hidden_mp)));
        drop(held_term);
        if let Some((class, detail)) = last_err {
            return Verdict::Bad(Violation { class, config: self.config(), history: shown, detail });
        }
        let _ = hidden_now;
        stats.outcomes.insert(hash_of(&g));
        Verdict::Ok { hash: hash_of(&(g, removed_calls.is_some())), nontrivial: hist.iter().any(|o| !matches!(o, Op::B(BOp::Tick))) }
    }
}

fn configs(tier: Tier) -> Vec<(C06, usize)> {
    let mut v = Vec::new();
    let flavours = [Flavour::HiddenTarget, Flavour::NotATty, Flavour::HiddenMulti, Flavour::RemovedFromMulti, Flavour::NotATtyHz, Flavour::RemovedFromHiddenMultiThenShown, Flavour::NotATtyMulti, Flavour::ReadWritePair, Flavour::StdoutNotATtyStderrTty, Flavour::MovedToHiddenMulti, Flavour::StderrBecomesTty, Flavour::BufferedNotATty, Flavour::HiddenConstructor, Flavour::SwitchedToHidden];
    for (k, &flavour) in flavours.iter().enumerate() {
        let fin = [Fin::AndLeave, Fin::WithMessage, Fin::AndClear, Fin::AbandonWithMessage, Fin::Abandon, Fin::AndLeave, Fin::WithMessage, Fin::AndClear, Fin::AndLeave, Fin::Abandon, Fin::WithMessage, Fin::AndLeave, Fin::AndClear, Fin::AndLeave][k];
        match tier {
            Tier::Quick => {
                v.push((C06 { flavour, fin, reduced: false }, if flavour == Flavour::RemovedFromMulti { 3 } else { 3 }));
                v.push((C06 { flavour, fin, reduced: true }, if flavour == Flavour::RemovedFromMulti { 4 } else { 4 }));
            }
            Tier::Thorough => {
                v.push((C06 { flavour, fin, reduced: false }, 4));
                v.push((C06 { flavour, fin, reduced: true }, if flavour == Flavour::RemovedFromMulti { 5 } else { 5 }));
            }
        }
    }
    v
}

pub fn run(tier: Tier, shard: Shard, stats: &mut Stats) {
    for (cfg, depth) in configs(tier) {
        Dfs::new(&cfg, depth, shard, 1).explore(stats);
    }
}

pub fn meta(tier: Tier) -> Meta {
    Meta {
        level: "model_checking",
        rule: "stateless DFS over all single-bar histories (26-operation alphabet incl. println, suspend, set_tab_width, length changes, every finish variant, positions beyond the length) to the stated depth, each executed in lock-step on a visible twin and on a hidden subject: ProgressDrawTarget::hidden(), ProgressBar::new with fd 2 redirected to a file (not a TTY), stderr_with_hz on the same, a member of a visible MultiProgress handed to a hidden one, a bar whose stderr becomes a terminal after its Term was made, a bar on a buffered non-TTY Term holding unflushed bytes of the program, a console::Term made of a read/write pair of files, stdout_with_hz while stdout is /dev/null and stderr is a pseudo terminal, member of a hidden MultiProgress, a member of a visible MultiProgress removed at every possible point of the history, and a member of a hidden MultiProgress removed at every point after which the MultiProgress is given a visible target; oracle: zero terminal calls (spy call counter incl. width/height; redirected file stays empty) and getters equal to the twin's after every operation; non-trivial = history contains more than ticks".into(),
        assumptions: vec!["fd 2 of the shard process is redirected to an unlinked file for the whole run".into()],
        bounds: json!({"configurations": configs(tier).iter().map(|(c, d)| json!({"config": c.config(), "reduced_alphabet": c.reduced, "depth": d})).collect::<Vec<_>>()}),
        exhaustive: true,
    }
}

pub fn replay(v: &Value) -> i32 {
    let hist: Vec<String> = v["history"].as_array().map(|a| a.iter().map(|s| s.as_str().unwrap_or("").to_string()).collect()).unwrap_or_default();
    for t in [Tier::Quick, Tier::Thorough] {
        for (cfg, _) in configs(t) {
            if cfg.config() == v["config"].as_str().unwrap_or("") {
                let r = crate::replay_hist(&cfg, &hist, "C06");
                if r != 2 {
                    return r;
                }
            }
        }
    }
    2
}
