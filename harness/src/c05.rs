//! C05 — redraw throttling: bounded frame rate and bounded staleness (HIST over virtual time).

use crate::report::{hash_of, Dfs, Hist, Shard, Stats, Verdict, Violation};
use crate::term::Spy;
use crate::util::{catch, panic_class};
use crate::{clock, Meta, Tier};
use indicatif::style::ProgressTracker;
use indicatif::{MultiProgress, ProgressBar, ProgressDrawTarget, ProgressState, ProgressStyle};
use serde_json::{json, Value};
use std::sync::{Arc, Mutex};
use std::time::Instant;

#[derive(Clone, Copy, Debug, PartialEq)]
pub enum Kind {
    Tick,
    Burst,
    Inc,
    IncBurst,
    Msg,
    /// set_position(current + 1)
    SetPos,
    /// set_position(current): a report that does not change the value
    SetPosSame,
    TickB,
    IncB,
    /// dec(1) and a burst of 15 of them: backwards moves obey the same token bucket
    Dec,
    DecBurst,
    /// reset() followed by a burst of 15 incs: a reset does not mint position tokens
    ResetIncBurst,
    /// the terminal reports another width (39 <-> 40 columns), then an ordinary tick
    ResizeTick,
    /// finish() (a forced draw, not counted) followed by reset(), whose redraw is an ordinary request
    FinishReset,
    /// MultiProgress only: two bars are inserted at the top and dropped again, lower one first (the
    /// draws this forces are not ordinary requests and are not counted), then an ordinary tick of bar a
    ChurnTick,
    /// five println calls (forced draws, outside the law) followed by an ordinary tick
    PrintlnBurstTick,
    /// 25 times: set_style(the same style again), then tick() - restyling does not draw and does not
    /// force the draw of the tick that follows
    RestyleBurst,
}

#[derive(Clone, Copy, Debug, PartialEq)]
pub struct Ev {
    pub gap_ns: u64,
    pub kind: Kind,
}

#[derive(Clone, Copy, Debug, PartialEq)]
pub enum Target {
    Single,
    Multi,
}

pub struct C05 {
    pub r: u8,
    pub target: Target,
    pub kinds: Vec<Kind>,
    pub gaps: Vec<u64>,
    pub name: &'static str,
    /// (MultiProgress only) the bars were first drawn on another terminal with this refresh rate, whose
    /// limiter was exhausted, before `MultiProgress::set_draw_target` moved them to the observed one
    pub from_r: Option<u8>,
}

pub fn interval_ns(r: u8) -> u64 {
    (1_000_000_000u64 + r as u64 - 1) / r as u64
}

fn draw_gaps(r: u8) -> Vec<u64> {
    let i = interval_ns(r);
    vec![0, 1, 1_000_000, i - 1, i, i + 1, 2 * i, 5 * i, 10 * i, 20 * i, 21 * i + 1, 3_600_000_000_000]
}

fn pos_gaps(r: u8) -> Vec<u64> {
    let i = interval_ns(r);
    let ms = 1_000_000u64;
    vec![0, 1, ms - 1, ms, ms + 1, 2 * ms, 5 * ms, 10 * ms, 11 * ms + 1, i, i + ms, 3_600_000_000_000]
}

#[derive(Clone, Default)]
struct Reach {
    times: Arc<Mutex<Vec<u64>>>,
}

impl ProgressTracker for Reach {
    fn clone_box(&self) -> Box<dyn ProgressTracker> {
        Box::new(self.clone())
    }
    fn tick(&mut self, _: &ProgressState, _: Instant) {
        self.times.lock().unwrap().push(clock::now_ns());
    }
    fn reset(&mut self, _: &ProgressState, _: Instant) {}
    fn write(&self, _: &ProgressState, w: &mut dyn std::fmt::Write) {
        let _ = w.write_str("k");
    }
}

/// window law in exact integers: for all i<=j, (j-i+1) <= burst + rate*(t_j-t_i) + 1,
/// with rate = num/den events per ns.  Returns the first violating pair.
fn window_law(times: &[u64], burst: i128, rate_num: i128, rate_den: i128) -> Option<(usize, usize)> {
    // (j - i - burst) * den <= num * (t_j - t_i)  <=>  f_j - f_i <= burst*den with f_k = k*den - num*t_k
    let mut min_f: Option<(i128, usize)> = None;
    for (k, &t) in times.iter().enumerate() {
        let f = k as i128 * rate_den - rate_num * t as i128;
        match min_f {
            None => min_f = Some((f, k)),
            Some((m, mi)) => {
                if f - m > burst * rate_den {
                    return Some((mi, k));
                }
                if f < m {
                    min_f = Some((f, k));
                }
            }
        }
    }
    None
}

struct Run {
    frames: Vec<(u64, Vec<String>)>,
    reach_a: Vec<u64>,
    /// times at which an inc on bar a reached the bar (was not refused by the position bucket)
    inc_reach: Vec<u64>,
    /// every inc/dec call on bar a: (time, reached the bar)
    inc_calls: Vec<(u64, bool)>,
    /// (time, kind, frames before, frames after, expected rows after the call)
    calls: Vec<(u64, Kind, usize, usize, Vec<String>)>,
    /// index ranges of frames painted by forced draws (structural changes)
    forced: Vec<(usize, usize)>,
}

impl C05 {
    fn config(&self) -> String {
        match self.from_r {
            Some(f) => format!("{} R={} target={:?} moved from a {} Hz target", self.name, self.r, self.target, f),
            None => format!("{} R={} target={:?}", self.name, self.r, self.target),
        }
    }

    fn execute(&self, hist: &[Ev]) -> Result<Run, String> {
        clock::reset();
        let spy = Spy::new(40, 10, false);
        spy.st().frames = Some(Vec::new());
        let old_spy = Spy::new(40, 10, false);
        let mut target = ProgressDrawTarget::term_like_with_hz(spy.boxed(), self.r);
        let mut later = None;
        if let Some(f) = self.from_r {
            later = Some(std::mem::replace(&mut target, ProgressDrawTarget::term_like_with_hz(old_spy.boxed(), f)));
        }
        let reach = Reach::default();
        let style = |r: Option<Reach>| {
            let s = ProgressStyle::with_template("{prefix}{pos} {msg}").unwrap();
            match r {
                Some(r) => s.with_key("k", r),
                None => s,
            }
        };
        let (mp, a, b): (Option<MultiProgress>, ProgressBar, Option<ProgressBar>) = match self.target {
            Target::Single => (None, ProgressBar::with_draw_target(Some(1_000_000), target).with_style(style(Some(reach.clone()))).with_prefix("a"), None),
            Target::Multi => {
                let mp = MultiProgress::with_draw_target(target);
                let a = mp.add(ProgressBar::with_draw_target(Some(1_000_000), ProgressDrawTarget::hidden()).with_style(style(Some(reach.clone()))).with_prefix("a"));
                let b = mp.add(ProgressBar::with_draw_target(Some(1_000_000), ProgressDrawTarget::hidden()).with_style(style(None)).with_prefix("b"));
                (Some(mp), a, Some(b))
            }
        };
        let a2 = a.clone();
        let mut step = 0u64;
        let (mut pa, mut pb_, mut msg) = (0u64, 0u64, 0u64);
        let mut calls = Vec::new();
        let mut inc_reach: Vec<u64> = Vec::new();
        let mut inc_calls: Vec<(u64, bool)> = Vec::new();
        let nframes = |spy: &Spy| spy.st().frames.as_ref().map_or(0, |f| f.len());
        let mut drawn_b = false;
        let mut drawn_a = false;
        let mut forced: Vec<(usize, usize)> = Vec::new();
        let mut logs = 0usize;
        if let Some(new_target) = later {
            let r = catch(|| {
                for _ in 0..25 {
                    a.tick();
                    b.as_ref().unwrap().tick();
                }
                clock::advance_ms(2);
                mp.as_ref().unwrap().set_draw_target(new_target);
            });
            if let Err(p) = r {
                return Err(p);
            }
            reach.times.lock().unwrap().clear();
            drawn_a = true;
            drawn_b = true;
        }
        let root = Ev { gap_ns: 0, kind: Kind::Burst };
        for ev in std::iter::once(&root).chain(hist.iter()) {
            clock::advance_ns(ev.gap_ns);
            let reps = match ev.kind {
                Kind::Burst | Kind::RestyleBurst => 25,
                Kind::IncBurst | Kind::DecBurst | Kind::ResetIncBurst => 15,
                _ => 1,
            };
            if ev.kind == Kind::ResetIncBurst {
                // reset() is an ordinary redraw request of its own
                let before = nframes(&spy);
                let t = clock::now_ns();
                if let Err(p) = catch(|| a.reset()) {
                    return Err(p);
                }
                pa = 0;
                drawn_a = true;
                let m = if msg == 0 { String::new() } else { format!("m{msg}") };
                let mut rows: Vec<String> = vec!["x".to_string(); logs];
                rows.push(format!("a{} {}", pa, m).trim_end().to_string());
                if self.target == Target::Multi && drawn_b {
                    rows.push(format!("b{}", pb_));
                }
                calls.push((t, Kind::Tick, before, nframes(&spy), rows));
                // the position bucket's clock restarts with the bar
                inc_calls.push((t, true));
                inc_calls.push((u64::MAX, false));
            }
            if ev.kind == Kind::ResizeTick {
                let mut st = spy.st();
                st.report_w = Some(if st.report_w == Some(39) { 40 } else { 39 });
            }
            if ev.kind == Kind::FinishReset {
                let f0 = nframes(&spy);
                if let Err(p) = catch(|| a.finish()) {
                    return Err(p);
                }
                forced.push((f0, nframes(&spy)));
                pa = 0;
                drawn_a = true;
            }
            if ev.kind == Kind::PrintlnBurstTick {
                let f0 = nframes(&spy);
                if let Err(p) = catch(|| {
                    for _ in 0..5 {
                        a.println("x");
                    }
                }) {
                    return Err(p);
                }
                forced.push((f0, nframes(&spy)));
                logs += 5;
                drawn_a = true;
            }
            for _ in 0..reps {
                if ev.kind == Kind::ChurnTick {
                    let f0 = nframes(&spy);
                    let mp = mp.as_ref().unwrap();
                    let r = catch(|| {
                        let x = mp.insert(0, ProgressBar::with_draw_target(Some(3), ProgressDrawTarget::hidden()).with_style(style(None)).with_prefix("x"));
                        let y = mp.insert(1, ProgressBar::with_draw_target(Some(3), ProgressDrawTarget::hidden()).with_style(style(None)).with_prefix("y"));
                        drop(y);
                        drop(x);
                    });
                    if let Err(p) = r {
                        return Err(p);
                    }
                    forced.push((f0, nframes(&spy)));
                }
                let before = nframes(&spy);
                let t = clock::now_ns();
                let reach0 = reach.times.lock().unwrap().len();
                if ev.kind == Kind::RestyleBurst {
                    if let Err(p) = catch(|| a.set_style(style(Some(reach.clone())))) {
                        return Err(p);
                    }
                }
                // (the position bucket belongs to the bar, not to the handle: odd steps go through a clone)
                let via_clone = self.name == "position-bucket-clones" && step % 2 == 1;
                step += 1;
                let a = if via_clone { &a2 } else { &a };
                let r = catch(|| match ev.kind {
                    Kind::Tick | Kind::RestyleBurst | Kind::Burst | Kind::ChurnTick | Kind::ResizeTick | Kind::PrintlnBurstTick => a.tick(),
                    Kind::FinishReset => a.reset(),
                    Kind::Inc | Kind::IncBurst | Kind::ResetIncBurst => a.inc(1),
                    Kind::Dec | Kind::DecBurst => a.dec(1),
                    Kind::Msg => a.set_message(format!("m{}", msg + 1)),
                    Kind::SetPos => a.set_position(pa + 1),
                    Kind::SetPosSame => a.set_position(pa),
                    Kind::TickB => b.as_ref().unwrap().tick(),
                    Kind::IncB => b.as_ref().unwrap().inc(1),
                });
                if let Err(p) = r {
                    return Err(p);
                }
                if matches!(ev.kind, Kind::Inc | Kind::IncBurst | Kind::Dec | Kind::DecBurst | Kind::ResetIncBurst) {
                    let reached = reach.times.lock().unwrap().len() > reach0;
                    if reached {
                        inc_reach.push(t);
                    }
                    inc_calls.push((t, reached));
                }
                match ev.kind {
                    Kind::Inc | Kind::IncBurst | Kind::SetPos | Kind::ResetIncBurst => pa = pa.wrapping_add(1),
                    Kind::Dec | Kind::DecBurst => pa = pa.wrapping_sub(1),
                    Kind::IncB => pb_ += 1,
                    Kind::Msg => msg += 1,
                    _ => {}
                }
                match ev.kind {
                    Kind::TickB | Kind::IncB => drawn_b = true,
                    _ => drawn_a = true,
                }
                let m = if msg == 0 { String::new() } else { format!("m{msg}") };
                let mut rows: Vec<String> = vec!["x".to_string(); logs];
                if drawn_a {
                    rows.push(format!("a{} {}", pa, m).trim_end().to_string());
                }
                if self.target == Target::Multi && drawn_b {
                    rows.push(format!("b{}", pb_));
                }
                calls.push((t, ev.kind, before, nframes(&spy), rows));
            }
        }
        let frames = spy.st().frames.take().unwrap_or_default();
        let reach_a = reach.times.lock().unwrap().clone();
        let _ = catch(move || drop((a, b, mp)));
        Ok(Run { frames, reach_a, inc_reach, inc_calls, calls, forced })
    }

    fn judge(&self, run: &Run) -> Result<(), (String, String)> {
        let r = self.r as i128;
        let i_ns = interval_ns(self.r);
        // frames painted by ordinary requests (forced draws of structural changes are outside the law)
        let is_forced = |k: usize| run.forced.iter().any(|&(a, b)| a <= k && k < b);
        let ftimes: Vec<u64> = run.frames.iter().enumerate().filter(|(k, _)| !is_forced(*k)).map(|(_, f)| f.0).collect();
        // (a) frame window law: burst 20, rate R per second
        if let Some((i, j)) = window_law(&ftimes, 20, r, 1_000_000_000) {
            let dt = ftimes[j] - ftimes[i];
            let class = if dt < i_ns { "window: more than 20 + R*T + 1 frames in a window shorter than one refresh interval" } else { "window: more than 20 + R*T + 1 frames in a window of several refresh intervals" };
            return Err((class.into(), format!("{} frames within {} ns (R={}, bound {:.3})", j - i + 1, dt, self.r, 21.0 + self.r as f64 * dt as f64 / 1e9)));
        }
        // (c) requests reaching the bar through inc: burst 10, 1 per ms
        {
            // ticks reach the bar unconditionally; judge the requests that reached it through inc
            let inc_reach: Vec<u64> = run.inc_reach.clone();
            if let Some((i, j)) = window_law(&inc_reach, 10, 1, 1_000_000) {
                return Err(("position bucket: more than 10 + T/1ms + 1 inc/dec-driven redraw requests in a window".into(), format!("{} requests within {} ns", j - i + 1, inc_reach[j] - inc_reach[i])));
            }
        }
        // (c') the bucket refills one token per millisecond: a report arriving at least 1 ms after the
        // last admitted one is admitted
        {
            let mut last_admitted: Option<u64> = None;
            for &(t, reached) in &run.inc_calls {
                if t == u64::MAX {
                    // marker: reset() — the law is not applied across it
                    last_admitted = None;
                    continue;
                }
                if let Some(la) = last_admitted {
                    if t - la >= 1_000_000 && !reached {
                        return Err(("position bucket: a report arriving at least 1 ms after the last admitted one is swallowed".into(), format!("report at {t} ns, last admitted at {la} ns")));
                    }
                }
                if reached {
                    last_admitted = Some(t);
                }
            }
        }
        // (b) staleness, (d) content
        let mut last_frame_t: Option<u64> = None;
        for (t, kind, before, after, rows) in &run.calls {
            let painted = after > before;
            // a forced frame painted just before this call is a painted frame too
            if let Some(&(a, b)) = run.forced.iter().find(|&&(_, b)| b == *before) {
                if b > a {
                    last_frame_t = Some(run.frames[b - 1].0);
                }
            }
            if let Some(lf) = last_frame_t {
                let need = match kind {
                    Kind::Inc | Kind::IncBurst | Kind::IncB | Kind::SetPos | Kind::SetPosSame | Kind::Dec | Kind::DecBurst | Kind::ResetIncBurst => i_ns + 1_000_000,
                    _ => i_ns,
                };
                if t - lf >= need && !painted {
                    let class = if matches!(kind, Kind::Inc | Kind::IncBurst | Kind::IncB | Kind::SetPos | Kind::SetPosSame | Kind::Dec | Kind::DecBurst | Kind::ResetIncBurst) { "staleness: an inc arriving more than one refresh interval + 1 ms after the last frame is not painted" } else { "staleness: a redraw request arriving at least one refresh interval after the last frame is not painted" };
                    return Err((class.into(), format!("request {:?} at {} ns, last frame at {} ns, interval {} ns", kind, t, lf, i_ns)));
                }
            }
            if painted {
                if after - before > 1 {
                    return Err(("frames: one ordinary request painted more than one frame".into(), format!("{} frames", after - before)));
                }
                let doc = &run.frames[*before].1;
                if doc != rows {
                    return Err(("content: a painted frame does not show the latest position/texts".into(), format!("frame {:?}, state {:?}", doc, rows)));
                }
                last_frame_t = Some(*t);
            }
        }
        Ok(())
    }
}

impl Hist for C05 {
    type Op = Ev;

    fn alphabet(&self, _p: &[Ev]) -> Vec<Ev> {
        let mut v = Vec::new();
        for &g in &self.gaps {
            for &k in &self.kinds {
                v.push(Ev { gap_ns: g, kind: k });
            }
        }
        v
    }

    fn show(&self, op: &Ev) -> String {
        format!("+{}ns {:?}", op.gap_ns, op.kind)
    }

    fn run(&self, hist: &[Ev], stats: &mut Stats) -> Verdict {
        let shown: Vec<String> = hist.iter().map(|o| self.show(o)).collect();
        let run = match self.execute(hist) {
            Ok(r) => r,
            Err(p) => return Verdict::Bad(Violation { class: format!("panic: {}", panic_class(&p)), config: self.config(), history: shown, detail: p }),
        };
        if let Err((class, detail)) = self.judge(&run) {
            return Verdict::Bad(Violation { class, config: self.config(), history: shown, detail });
        }
        stats.bump("frames_checked", run.frames.len() as u64);
        stats.outcomes.insert(hash_of(&(run.frames.len(), run.reach_a.len())));
        let rel: Vec<u64> = run.frames.iter().map(|f| f.0).collect();
        Verdict::Ok { hash: hash_of(&(self.r, rel, run.reach_a.len())), nontrivial: run.frames.len() > 20 }
    }
}

fn long_run(r: u8, secs: u64, stats: &mut Stats) {
    // requests every I/3 for `secs` virtual seconds after draining the bucket
    let cfg = C05 { r, target: Target::Single, kinds: vec![], gaps: vec![], name: "long-run", from_r: None };
    clock::reset();
    let spy = Spy::new(40, 10, false);
    spy.st().frames = Some(Vec::new());
    let pb = ProgressBar::with_draw_target(Some(10), ProgressDrawTarget::term_like_with_hz(spy.boxed(), r)).with_style(ProgressStyle::with_template("{pos}").unwrap());
    let step = interval_ns(r) / 3;
    let n = secs * 1_000_000_000 / step;
    stats.evaluations += 1;
    stats.transitions += 1;
    let res = catch(|| {
        for _ in 0..25 {
            pb.tick();
        }
        for _ in 0..n {
            clock::advance_ns(step);
            pb.tick();
        }
    });
    let frames = spy.st().frames.take().unwrap_or_default();
    let _ = catch(move || drop(pb));
    let hist = vec![format!("burst of 25 ticks, then one tick every {} ns for {} virtual seconds", step, secs)];
    if let Err(p) = res {
        stats.violation(Violation { class: format!("panic: {}", panic_class(&p)), config: cfg.config(), history: hist, detail: p });
        return;
    }
    let ft: Vec<u64> = frames.iter().map(|f| f.0).collect();
    if let Some((i, j)) = window_law(&ft, 20, r as i128, 1_000_000_000) {
        let dt = ft[j] - ft[i];
        stats.violation(Violation { class: "window: long run exceeds 20 + R*T + 1 frames (frame rate above the refresh rate)".into(), config: cfg.config(), history: hist, detail: format!("{} frames within {} ns (R={}, bound {:.3}); total {} frames in {} s", j - i + 1, dt, r, 21.0 + r as f64 * dt as f64 / 1e9, ft.len(), secs) });
        return;
    }
    // liveness side: at least floor(R*T) - 1 frames (every request >= I after the last frame paints)
    stats.bump("frames_checked", ft.len() as u64);
    stats.state(hash_of(&("long", r, secs, ft.len())), true);
}

fn configs(tier: Tier) -> Vec<(C05, usize)> {
    let mut v = Vec::new();
    let few: &[u8] = &[1, 3, 7, 20, 60, 255];
    match tier {
        Tier::Quick => {
            for r in 1..=255u8 {
                let d = if few.contains(&r) { 3 } else { 2 };
                v.push((C05 { r, target: Target::Single, kinds: vec![Kind::Tick, Kind::Burst], gaps: draw_gaps(r), name: "draw-limiter", from_r: None }, d));
            }
            for &r in &[20u8, 255] {
                v.push((C05 { r, target: Target::Single, kinds: vec![Kind::Inc, Kind::IncBurst, Kind::Dec, Kind::DecBurst, Kind::ResetIncBurst], gaps: pos_gaps(r), name: "position-bucket", from_r: None }, 3));
                v.push((C05 { r, target: Target::Multi, kinds: vec![Kind::Tick, Kind::Burst, Kind::TickB, Kind::IncB, Kind::ChurnTick, Kind::ResizeTick, Kind::FinishReset], gaps: vec![0, 1, interval_ns(r) - 1, interval_ns(r), 20 * interval_ns(r), 21 * interval_ns(r) + 1], name: "multi", from_r: None }, 3));
                v.push((C05 { r, target: Target::Single, kinds: vec![Kind::Tick, Kind::Inc, Kind::Burst, Kind::Msg, Kind::SetPos, Kind::SetPosSame, Kind::ResizeTick, Kind::FinishReset], gaps: vec![0, 1_000_000, interval_ns(r) - 1, interval_ns(r) + 1_000_000, 21 * interval_ns(r) + 1], name: "mixed", from_r: None }, 3));
            }
            // the same bar stepped through two handles; restyling between ticks
            v.push((C05 { r: 20, target: Target::Single, kinds: vec![Kind::Inc, Kind::IncBurst, Kind::Dec, Kind::DecBurst], gaps: pos_gaps(20), name: "position-bucket-clones", from_r: None }, 3));
            for (r, target) in [(2u8, Target::Single), (20, Target::Multi)] {
                v.push((C05 { r, target, kinds: vec![Kind::Tick, Kind::Burst, Kind::RestyleBurst], gaps: vec![0, interval_ns(r), 5 * interval_ns(r) + 1], name: "restyle", from_r: None }, 3));
            }
            // forced draws (println) between ordinary requests neither use up nor refill the budget of the latter
            for (r, target) in [(2u8, Target::Single), (20, Target::Multi)] {
                v.push((C05 { r, target, kinds: vec![Kind::Tick, Kind::Burst, Kind::PrintlnBurstTick], gaps: vec![0, 2 * interval_ns(r), 5 * interval_ns(r) + 1, 21 * interval_ns(r) + 1], name: "forced", from_r: None }, 3));
            }
            // the MultiProgress was moved to the observed terminal from one with another refresh rate
            for (f, r) in [(100u8, 2u8), (2, 100)] {
                v.push((C05 { r, target: Target::Multi, kinds: vec![Kind::Tick, Kind::Burst, Kind::TickB, Kind::IncB], gaps: vec![0, 1, interval_ns(r) - 1, interval_ns(r), 20 * interval_ns(r), 21 * interval_ns(r) + 1], name: "multi", from_r: Some(f) }, 3));
            }
        }
        Tier::Thorough => {
            for r in 1..=255u8 {
                let d = if few.contains(&r) { 4 } else { 3 };
                v.push((C05 { r, target: Target::Single, kinds: vec![Kind::Tick, Kind::Burst], gaps: draw_gaps(r), name: "draw-limiter", from_r: None }, d));
            }
            for &r in few {
                v.push((C05 { r, target: Target::Single, kinds: vec![Kind::Inc, Kind::IncBurst, Kind::Dec, Kind::DecBurst, Kind::ResetIncBurst], gaps: pos_gaps(r), name: "position-bucket", from_r: None }, 4));
                v.push((C05 { r, target: Target::Multi, kinds: vec![Kind::Tick, Kind::Burst, Kind::TickB, Kind::IncB, Kind::ChurnTick], gaps: vec![0, 1, interval_ns(r) - 1, interval_ns(r), 20 * interval_ns(r), 21 * interval_ns(r) + 1], name: "multi", from_r: None }, 4));
                v.push((C05 { r, target: Target::Single, kinds: vec![Kind::Tick, Kind::Inc, Kind::Burst, Kind::Msg, Kind::SetPos, Kind::SetPosSame, Kind::ResizeTick, Kind::FinishReset], gaps: vec![0, 1_000_000, interval_ns(r) - 1, interval_ns(r) + 1_000_000, 21 * interval_ns(r) + 1], name: "mixed", from_r: None }, 4));
            }
            for (r, d) in [(20u8, 4usize), (255, 3)] {
                v.push((C05 { r, target: Target::Single, kinds: vec![Kind::Inc, Kind::IncBurst, Kind::Dec, Kind::DecBurst, Kind::ResetIncBurst], gaps: pos_gaps(r), name: "position-bucket-clones", from_r: None }, d));
            }
            for (r, target, d) in [(2u8, Target::Single, 4usize), (20, Target::Multi, 3), (255, Target::Multi, 3)] {
                v.push((C05 { r, target, kinds: vec![Kind::Tick, Kind::Burst, Kind::RestyleBurst, Kind::Msg], gaps: vec![0, interval_ns(r), 5 * interval_ns(r) + 1], name: "restyle", from_r: None }, d));
            }
            for (r, target, d) in [(2u8, Target::Single, 4usize), (20, Target::Multi, 3), (255, Target::Single, 3), (1, Target::Multi, 3)] {
                v.push((C05 { r, target, kinds: vec![Kind::Tick, Kind::Burst, Kind::PrintlnBurstTick, Kind::Msg], gaps: vec![0, 2 * interval_ns(r), 5 * interval_ns(r) + 1, 21 * interval_ns(r) + 1], name: "forced", from_r: None }, d));
            }
            for (f, r) in [(100u8, 2u8), (2, 100), (255, 1), (1, 255), (20, 21)] {
                v.push((C05 { r, target: Target::Multi, kinds: vec![Kind::Tick, Kind::Burst, Kind::TickB, Kind::IncB, Kind::ChurnTick], gaps: vec![0, 1, interval_ns(r) - 1, interval_ns(r), 20 * interval_ns(r), 21 * interval_ns(r) + 1], name: "multi", from_r: Some(f) }, if f == 100 || r == 100 { 4 } else { 3 }));
            }
        }
    }
    v
}

pub fn run(tier: Tier, shard: Shard, stats: &mut Stats) {
    for (cfg, depth) in configs(tier) {
        Dfs::new(&cfg, depth, shard, 1).explore(stats);
    }
    let secs: &[u64] = if tier == Tier::Quick { &[1, 100] } else { &[1, 100, 3600] };
    let mut k = 0u64;
    for r in 1..=255u8 {
        for &s in secs {
            k += 1;
            if shard.owns(k) {
                long_run(r, s, stats);
            }
        }
    }
}

pub fn meta(tier: Tier) -> Meta {
    let (d1, d2) = if tier == Tier::Quick { (2, 3) } else { (3, 4) };
    Meta {
        level: "model_checking",
        rule: format!("virtual-time histories: every sequence of (gap, request) events to depth {d1} for every refresh rate 1..=255 and depth {d2} for R in {{1,3,7,20,60,255}}, gaps clustered at 0, 1 ns, 1 ms, I-1 ns, I, I+1 ns, 2I, 5I, 10I, 20I, 21I+1 ns, 1 h (I = ceil(1e9/R) ns), requests tick / burst of 25 ticks, after draining the bucket at t=0; position-bucket, mixed and MultiProgress (two members; incl. bars inserted and dropped between requests, whose forced draws are not counted) configurations; long runs (one request every I/3 for 1 s and 100 s{}) for every R. Oracle in exact integer arithmetic: window law over all frame pairs, staleness, inc token bucket (observed through a ProgressTracker), frame content == latest state; a state is (R, frame times, requests reaching the bar); non-trivial = more than 20 frames", if tier == Tier::Quick { "" } else { ", 1 h" }),
        assumptions: vec!["virtual clock by clock_gettime interposition; one draw target per history, clock reset to the base instant".into(), "frames = completed draws (flushes) caused by ordinary requests; forced draws (bars added/dropped in the MultiProgress configuration) are identified and left out of the count".into()],
        bounds: json!({"rates": "1..=255", "depth_all_rates": d1, "depth_selected_rates": d2}),
        exhaustive: true,
    }
}

pub fn replay(v: &Value) -> i32 {
    let hist: Vec<String> = v["history"].as_array().map(|a| a.iter().map(|s| s.as_str().unwrap_or("").to_string()).collect()).unwrap_or_default();
    for t in [Tier::Quick, Tier::Thorough] {
        for (cfg, _) in configs(t) {
            if cfg.config() == v["config"].as_str().unwrap_or("") {
                let r = crate::replay_hist(&cfg, &hist, "C05");
                if r != 2 {
                    return r;
                }
            }
        }
    }
    println!("(long-run cases are re-evaluated by bin/check C05)");
    2
}
