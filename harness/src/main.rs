//! vcheck — bounded-exhaustive exploration of the real indicatif crate (DESIGN.md).
//!
//!   vcheck <Cxx> --tier quick|thorough              parent: shard over processes, merge, classify
//!   vcheck <Cxx> --tier T --shard i/n --out FILE    child: explore one shard
//!   vcheck <Cxx> --replay FILE                      re-execute one recorded violation

mod clock;
mod report;
mod term;
mod util;

mod barops;
mod c01;
mod c02y;
mod c03x;
mod c04s;
mod c05;
mod c06;
mod c07;
mod c09;
mod c16;
mod c17;
mod c17_async;
mod c17_rayon;
mod c18;
mod c10;
mod c11;
mod c12;
mod c13;
mod c14;
mod c15;
mod render;
mod multi;
mod multi_props;

use report::{Shard, Stats};
use serde_json::{json, Value};
use std::collections::{BTreeMap, HashSet};
use std::io::Write;
use std::process::{Command, Stdio};

#[derive(Clone, Copy, PartialEq, Eq, Debug)]
pub enum Tier {
    Quick,
    Thorough,
}

impl Tier {
    pub fn name(&self) -> &'static str {
        match self {
            Tier::Quick => "quick",
            Tier::Thorough => "thorough",
        }
    }
}

pub struct Meta {
    pub level: &'static str,
    pub rule: String,
    pub assumptions: Vec<String>,
    pub bounds: Value,
    pub exhaustive: bool,
}

struct Check {
    id: &'static str,
    run: fn(Tier, Shard, &mut Stats),
    meta: fn(Tier) -> Meta,
    replay: fn(&Value) -> i32,
}

fn checks() -> Vec<Check> {
    use multi_props as mp;
    vec![
        Check { id: "C01", run: c01::run, meta: c01::meta, replay: c01::replay },
        Check { id: "C02", run: mp::c02_run, meta: mp::c02_meta, replay: mp::c02_replay },
        Check { id: "C03", run: mp::c03_run, meta: mp::c03_meta, replay: mp::c03_replay },
        Check { id: "C04", run: mp::c04_run, meta: mp::c04_meta, replay: mp::c04_replay },
        Check { id: "C05", run: c05::run, meta: c05::meta, replay: c05::replay },
        Check { id: "C06", run: c06::run, meta: c06::meta, replay: c06::replay },
        Check { id: "C07", run: c07::run, meta: c07::meta, replay: c07::replay },
        Check { id: "C09", run: c09::run, meta: c09::meta, replay: c09::replay },
        Check { id: "C10", run: c10::run, meta: c10::meta, replay: c10::replay },
        Check { id: "C11", run: c11::run, meta: c11::meta, replay: c11::replay },
        Check { id: "C12", run: c12::run, meta: c12::meta, replay: c12::replay },
        Check { id: "C13", run: c13::run, meta: c13::meta, replay: c13::replay },
        Check { id: "C14", run: c14::run, meta: c14::meta, replay: c14::replay },
        Check { id: "C15", run: c15::run, meta: c15::meta, replay: c15::replay },
        Check { id: "C16", run: c16::run, meta: c16::meta, replay: c16::replay },
        Check { id: "C17", run: c17::run, meta: c17::meta, replay: c17::replay },
        Check { id: "C18", run: c18::run, meta: c18::meta, replay: c18::replay },
        Check { id: "C19", run: mp::c19_run, meta: mp::c19_meta, replay: mp::c19_replay },
    ]
}

const VERIF: &str = "/verif";

fn main() {
    let args: Vec<String> = std::env::args().collect();
    if args.len() < 2 {
        eprintln!("usage: vcheck <Cxx> --tier quick|thorough | --replay FILE");
        std::process::exit(2);
    }
    let id = args[1].clone();
    let mut tier = match std::env::var("VERIF_TIER").ok().as_deref() {
        Some("thorough") => Tier::Thorough,
        _ => Tier::Quick,
    };
    let mut shard: Option<Shard> = None;
    let mut out: Option<String> = None;
    let mut replay: Option<String> = None;
    let mut jobs = 16usize;
    let mut i = 2;
    while i < args.len() {
        match args[i].as_str() {
            "--tier" => {
                tier = if args[i + 1] == "thorough" { Tier::Thorough } else { Tier::Quick };
                i += 1;
            }
            "--shard" => {
                let (a, b) = args[i + 1].split_once('/').expect("i/n");
                shard = Some(Shard { i: a.parse().unwrap(), n: b.parse().unwrap() });
                i += 1;
            }
            "--out" => {
                out = Some(args[i + 1].clone());
                i += 1;
            }
            "--replay" => {
                replay = Some(args[i + 1].clone());
                i += 1;
            }
            "--jobs" => {
                jobs = args[i + 1].parse().unwrap();
                i += 1;
            }
            other => {
                eprintln!("unknown argument {other}");
                std::process::exit(2);
            }
        }
        i += 1;
    }
    let all = checks();
    let Some(check) = all.iter().find(|c| c.id == id) else {
        eprintln!("unknown property {id}");
        std::process::exit(2);
    };

    clock::assert_owned();
    if std::env::var("VCHECK_LOUD").is_err() {
        util::silence_panics();
    }
    console::set_colors_enabled(false);
    console::set_colors_enabled_stderr(false);

    if let Some(path) = replay {
        util::abort_guard_install();
        let text = std::fs::read_to_string(&path).expect("replay file");
        let v: Value = serde_json::from_str(&text).expect("replay json");
        std::process::exit((check.replay)(&v));
    }

    let _ = report::CURRENT_PROP.set(check.id.to_string());
    let _ = report::KNOWN_CLASSES.set(load_known(check.id).into_iter().map(|k| k.0).collect());
    if let Some(sh) = shard {
        let mut stats = Stats::default();
        util::watchdog_start(out.as_deref().expect("--out"));
        (check.run)(tier, sh, &mut stats);
        let js = stats.to_shard_json(check.id);
        let out = out.expect("--out");
        std::fs::write(&out, serde_json::to_vec(&js).unwrap()).expect("write shard");
        return;
    }

    std::process::exit(parent(check, tier, jobs));
}

fn parent(check: &Check, tier: Tier, jobs: usize) -> i32 {
    let t0 = clock::wall_s();
    let seed: i64 = std::env::var("VERIF_SEED").ok().and_then(|s| s.parse().ok()).unwrap_or(0);
    let exe = std::env::current_exe().unwrap();
    let dir = format!("{VERIF}/harness/target/shards/{}-{}", check.id, tier.name());
    let _ = std::fs::remove_dir_all(&dir);
    std::fs::create_dir_all(&dir).unwrap();
    let evidence_path = format!("{VERIF}/evidence/{}.json", check.id);
    let _ = std::fs::remove_file(&evidence_path);

    let mut children = Vec::new();
    for i in 0..jobs {
        let out = format!("{dir}/shard_{i}.json");
        let child = Command::new(&exe)
            .arg(check.id)
            .arg("--tier")
            .arg(tier.name())
            .arg("--shard")
            .arg(format!("{i}/{jobs}"))
            .arg("--out")
            .arg(&out)
            .stdout(Stdio::null())
            .stderr(Stdio::piped())
            .spawn()
            .expect("spawn shard");
        children.push((i, out, child));
    }

    let mut machinery: Vec<String> = Vec::new();
    let mut merged = Merged::default();
    for (i, out, child) in children {
        let o = child.wait_with_output().expect("wait shard");
        if !o.status.success() {
            let err = String::from_utf8_lossy(&o.stderr);
            let tail: String = err.lines().rev().take(12).collect::<Vec<_>>().into_iter().rev().collect::<Vec<_>>().join("\n");
            machinery.push(format!("shard {i} exited with {:?}: {tail}", o.status));
            continue;
        }
        match std::fs::read(&out).ok().and_then(|b| serde_json::from_slice::<Value>(&b).ok()) {
            Some(v) => merged.absorb(&v),
            None => machinery.push(format!("shard {i} wrote no result")),
        }
        let _ = std::fs::remove_file(&out);
    }
    machinery.extend(merged.machinery_errors.iter().cloned());

    // classify against known findings
    let known = load_known(check.id);
    let mut known_hit: Vec<(String, String, u64)> = Vec::new();
    let mut new_violations: Vec<(Value, u64)> = Vec::new();
    for (class, w) in &merged.witnesses {
        let n = *merged.class_counts.get(class).unwrap_or(&1);
        if let Some(k) = known.iter().find(|k| class_matches(&k.0, class)) {
            known_hit.push((k.0.clone(), k.1.clone(), n));
        } else {
            new_violations.push((w.clone(), n));
        }
    }

    let meta = (check.meta)(tier);
    let wall = clock::wall_s() - t0;
    let n_viol: u64 = new_violations.iter().map(|v| v.1).sum();
    let mut coverage = json!({
        "evaluations": merged.evaluations,
        "distinct_nontrivial": merged.nontrivial.len(),
        "rule": meta.rule,
        "samples": merged.samples,
        "states": merged.states.len(),
        "transitions": merged.transitions,
        "traces_validated_against_impl": merged.evaluations,
        "model_lockstep_comparisons_vs_vt100": merged.vt_compares,
        "distinct_outcomes": merged.outcomes.len(),
        "pruned_subtrees": merged.pruned,
        "max_depth_reached": merged.max_depth,
        "bounds": meta.bounds,
        "caps_hit": merged.caps_hit,
        "exhaustive": meta.exhaustive && merged.caps_hit.is_empty() && machinery.is_empty(),
        "known_findings": known_hit.iter().map(|k| json!({"class": k.0, "what": k.1, "instances": k.2})).collect::<Vec<_>>(),
        "violation_classes": new_violations.iter().map(|v| json!({"class": v.0["class"], "instances": v.1})).collect::<Vec<_>>(),
        "machinery_errors": machinery,
        "notes": merged.notes,
        "shards": jobs,
    });
    for (k, v) in &merged.extra {
        coverage[k] = json!(v);
    }
    let evidence = json!({
        "property_id": check.id,
        "tier": tier.name(),
        "seed": seed,
        "level": meta.level,
        "coverage": coverage,
        "assumptions": meta.assumptions,
        "wall_s": (wall * 1000.0).round() / 1000.0,
        "violations": n_viol,
    });
    std::fs::create_dir_all(format!("{VERIF}/evidence")).unwrap();
    std::fs::write(&evidence_path, serde_json::to_string_pretty(&evidence).unwrap() + "\n").unwrap();

    let so = std::io::stdout();
    let mut so = so.lock();
    for k in &known_hit {
        let _ = writeln!(so, "KNOWN-FINDING: property={} {} [class={} instances={}]", check.id, k.1, k.0, k.2);
    }
    let mut code = 0;
    std::fs::create_dir_all(format!("{VERIF}/replays")).unwrap();
    for (w, n) in &new_violations {
        let h = report::hash_of(&w.to_string());
        let path = format!("{VERIF}/replays/{}-{:016x}.json", check.id, h);
        std::fs::write(&path, serde_json::to_string_pretty(w).unwrap() + "\n").unwrap();
        let _ = writeln!(so, "VIOLATION property={} replay={}", check.id, path);
        let _ = writeln!(so, "  class={} instances={} history={} detail={}", w["class"], n, w["history"], w["detail"]);
        code = 1;
    }
    if !machinery.is_empty() {
        for m in &machinery {
            let _ = writeln!(so, "MACHINERY-ERROR: {}", m);
        }
        if code == 0 {
            code = 2;
        }
    }
    let _ = writeln!(
        so,
        "{} {}: evaluations={} transitions={} states={} nontrivial={} outcomes={} known={} violations={} caps={:?} wall={:.1}s",
        check.id,
        tier.name(),
        merged.evaluations,
        merged.transitions,
        merged.states.len(),
        merged.nontrivial.len(),
        merged.outcomes.len(),
        known_hit.len(),
        n_viol,
        merged.caps_hit,
        wall
    );
    code
}

#[derive(Default)]
struct Merged {
    evaluations: u64,
    transitions: u64,
    pruned: u64,
    vt_compares: u64,
    max_depth: u64,
    states: HashSet<u64>,
    nontrivial: HashSet<u64>,
    outcomes: HashSet<u64>,
    caps_hit: Vec<String>,
    samples: Vec<Value>,
    class_counts: BTreeMap<String, u64>,
    witnesses: BTreeMap<String, Value>,
    machinery_errors: Vec<String>,
    extra: BTreeMap<String, u64>,
    notes: Vec<String>,
}

impl Merged {
    fn absorb(&mut self, v: &Value) {
        self.evaluations += v["evaluations"].as_u64().unwrap_or(0);
        self.transitions += v["transitions"].as_u64().unwrap_or(0);
        self.pruned += v["pruned"].as_u64().unwrap_or(0);
        self.vt_compares += v["vt_compares"].as_u64().unwrap_or(0);
        self.max_depth = self.max_depth.max(v["max_depth"].as_u64().unwrap_or(0));
        for (key, set) in [("states", &mut self.states), ("nontrivial", &mut self.nontrivial), ("outcomes", &mut self.outcomes)] {
            if let Some(a) = v[key].as_array() {
                for x in a {
                    if let Some(h) = x.as_u64() {
                        set.insert(h);
                    }
                }
            }
        }
        if let Some(a) = v["caps_hit"].as_array() {
            for c in a {
                let c = c.as_str().unwrap_or("").to_string();
                if !self.caps_hit.contains(&c) {
                    self.caps_hit.push(c);
                }
            }
        }
        if let Some(a) = v["samples"].as_array() {
            for s in a {
                if self.samples.len() < 8 {
                    self.samples.push(s.clone());
                }
            }
        }
        if let Some(m) = v["class_counts"].as_object() {
            for (k, n) in m {
                *self.class_counts.entry(k.clone()).or_insert(0) += n.as_u64().unwrap_or(0);
            }
        }
        if let Some(a) = v["witnesses"].as_array() {
            for w in a {
                let class = w["class"].as_str().unwrap_or("").to_string();
                let len = w["history"].as_array().map_or(0, |h| h.len());
                match self.witnesses.get(&class) {
                    Some(old) if old["history"].as_array().map_or(0, |h| h.len()) <= len => {}
                    _ => {
                        self.witnesses.insert(class, w.clone());
                    }
                }
            }
        }
        if let Some(a) = v["machinery_errors"].as_array() {
            for e in a {
                if self.machinery_errors.len() < 10 {
                    self.machinery_errors.push(e.as_str().unwrap_or("").to_string());
                }
            }
        }
        if let Some(m) = v["extra"].as_object() {
            for (k, n) in m {
                *self.extra.entry(k.clone()).or_insert(0) += n.as_u64().unwrap_or(0);
            }
        }
        if let Some(a) = v["notes"].as_array() {
            for e in a {
                let e = e.as_str().unwrap_or("").to_string();
                if !self.notes.contains(&e) {
                    self.notes.push(e);
                }
            }
        }
    }
}

/// `known: property=<id> class=<class> :: <what fails>` lines of /verif/known_findings.txt.
/// `fixed:` lines are documentation only and suppress nothing.
fn load_known(id: &str) -> Vec<(String, String)> {
    let mut v = Vec::new();
    let text = std::fs::read_to_string(format!("{VERIF}/known_findings.txt")).unwrap_or_default();
    for line in text.lines() {
        let line = line.trim();
        let Some(rest) = line.strip_prefix("known: ") else { continue };
        let Some(rest) = rest.strip_prefix(&format!("property={id} ")) else { continue };
        let Some(rest) = rest.strip_prefix("class=") else { continue };
        let (class, what) = rest.split_once(" :: ").unwrap_or((rest, ""));
        v.push((class.trim().to_string(), what.trim().to_string()));
    }
    v
}

fn class_matches(known: &str, class: &str) -> bool {
    known == class
}

/// Re-execute a recorded history (ops identified by their printed form), step by step, twice.
pub fn replay_hist<H: report::Hist>(h: &H, hist: &[String], id: &str) -> i32 {
    let mut ops: Vec<H::Op> = Vec::new();
    for s in hist {
        let alpha = h.alphabet(&ops);
        match alpha.into_iter().find(|o| h.show(o) == *s) {
            Some(o) => ops.push(o),
            None => {
                eprintln!("operation {s} is not in the alphabet after {:?}", &hist[..ops.len()]);
                return 2;
            }
        }
    }
    let mut last = 0;
    for k in 1..=ops.len() {
        let mut st = Stats::default();
        let v1 = h.run(&ops[..k], &mut st);
        let v2 = h.run(&ops[..k], &mut st);
        let d = |v: &report::Verdict| match v {
            report::Verdict::Ok { hash, .. } => format!("ok state={hash:016x}"),
            report::Verdict::Bad(v) => format!("VIOLATION class={} detail={}", v.class, v.detail),
            report::Verdict::Machinery(m) => format!("MACHINERY {m}"),
        };
        if d(&v1) != d(&v2) {
            println!("MACHINERY-ERROR: replay is not deterministic at step {k}");
            return 2;
        }
        println!("step {k}: {} -> {}", hist[k - 1], d(&v1));
        last = match v1 {
            report::Verdict::Ok { .. } => 0,
            report::Verdict::Bad(_) => 1,
            report::Verdict::Machinery(_) => 2,
        };
        if last != 0 {
            break;
        }
    }
    if last == 1 {
        println!("VIOLATION property={id} replay=(this file)");
    }
    last
}
