//! Helpers for the input-enumeration (ENUM) checks: render one frame of a real bar and return
//! the raw line payloads the crate wrote, and a sharded case runner.

use crate::report::{Shard, Stats, Violation};
use indicatif::{ProgressBar, ProgressDrawTarget, ProgressStyle, TermLike};
use std::io;
use std::sync::{Arc, Mutex};

#[derive(Default)]
pub struct CatchState {
    pub strs: Vec<String>,
    pub line_breaks: usize,
    pub calls: u64,
}

/// A `TermLike` that records the payload of every write.
#[derive(Clone)]
pub struct LineCatcher {
    /// answers for the next width() queries (consumed one per query), then `w` applies
    pub width_script: Arc<Mutex<std::collections::VecDeque<u16>>>,
    /// the next flush fails once
    pub fail_flush: Arc<std::sync::atomic::AtomicBool>,
    pub w: Arc<std::sync::atomic::AtomicU16>,
    pub h: u16,
    pub st: Arc<Mutex<CatchState>>,
}

impl std::fmt::Debug for LineCatcher {
    fn fmt(&self, f: &mut std::fmt::Formatter<'_>) -> std::fmt::Result {
        f.write_str("LineCatcher")
    }
}

impl LineCatcher {
    pub fn new(w: u16) -> Self {
        LineCatcher { width_script: Default::default(), fail_flush: Arc::new(std::sync::atomic::AtomicBool::new(false)), w: Arc::new(std::sync::atomic::AtomicU16::new(w)), h: 1000, st: Arc::new(Mutex::new(CatchState::default())) }
    }
    pub fn resize(&self, w: u16) {
        self.w.store(w, std::sync::atomic::Ordering::Relaxed);
    }
    pub fn take(&self) -> Vec<String> {
        let mut st = self.st.lock().unwrap_or_else(|e| e.into_inner());
        st.line_breaks = 0;
        std::mem::take(&mut st.strs)
    }
}

impl TermLike for LineCatcher {
    fn width(&self) -> u16 {
        if let Some(w) = self.width_script.lock().unwrap_or_else(|e| e.into_inner()).pop_front() {
            return w;
        }
        self.w.load(std::sync::atomic::Ordering::Relaxed)
    }
    fn height(&self) -> u16 {
        self.h
    }
    fn move_cursor_up(&self, _: usize) -> io::Result<()> {
        Ok(())
    }
    fn move_cursor_down(&self, _: usize) -> io::Result<()> {
        Ok(())
    }
    fn move_cursor_right(&self, _: usize) -> io::Result<()> {
        Ok(())
    }
    fn move_cursor_left(&self, _: usize) -> io::Result<()> {
        Ok(())
    }
    fn write_line(&self, s: &str) -> io::Result<()> {
        let mut st = self.st.lock().unwrap_or_else(|e| e.into_inner());
        st.calls += 1;
        if !s.is_empty() {
            st.strs.push(s.to_string());
        }
        st.line_breaks += 1;
        Ok(())
    }
    fn write_str(&self, s: &str) -> io::Result<()> {
        let mut st = self.st.lock().unwrap_or_else(|e| e.into_inner());
        st.calls += 1;
        // the single blank written right behind a first line without any width (it lets a cursor parked
        // at the right edge wrap) belongs to that line's payload, it is not a line of its own
        if s == " " && st.strs.len() == 1 && st.line_breaks == 0 && console::measure_text_width(&st.strs[0]) == 0 {
            return Ok(());
        }
        st.strs.push(s.to_string());
        Ok(())
    }
    fn clear_line(&self) -> io::Result<()> {
        Ok(())
    }
    fn flush(&self) -> io::Result<()> {
        if self.fail_flush.swap(false, std::sync::atomic::Ordering::Relaxed) {
            return Err(io::Error::new(io::ErrorKind::Other, "injected"));
        }
        Ok(())
    }
}

/// The frame lines of one forced draw: payloads of the line writes (the trailing filler removed).
pub fn frame_lines(catcher: &LineCatcher, pb: &ProgressBar) -> Vec<String> {
    catcher.take();
    pb.force_draw();
    let mut v = catcher.take();
    // last payload is the right-edge filler of the last bar line (spaces only, possibly empty)
    v.pop();
    v
}

/// The frame lines of one ordinary (non-forced) redraw request.
pub fn frame_lines_tick(catcher: &LineCatcher, pb: &ProgressBar) -> Vec<String> {
    catcher.take();
    pb.tick();
    let mut v = catcher.take();
    v.pop();
    v
}

pub fn bar_on(catcher: &LineCatcher, len: Option<u64>, style: ProgressStyle) -> ProgressBar {
    ProgressBar::with_draw_target(len, ProgressDrawTarget::term_like(Box::new(catcher.clone()))).with_style(style)
}

/// Run `f` on every case owned by the shard; `f` returns Ok((state hash, nontrivial)) or a violation.
pub fn for_cases<T>(
    cases: impl Iterator<Item = T>,
    shard: Shard,
    stats: &mut Stats,
    mut f: impl FnMut(&T, &mut Stats) -> Result<(u64, bool), Violation>,
) {
    for (i, c) in cases.enumerate() {
        if !shard.owns(i as u64) {
            continue;
        }
        stats.evaluations += 1;
        stats.transitions += 1;
        match f(&c, stats) {
            Ok((h, nt)) => stats.state(h, nt),
            Err(v) => stats.violation(v),
        }
    }
}
