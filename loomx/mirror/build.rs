// The only place where the hook guard is switched on.
fn main() {
    println!("cargo:rustc-cfg=indicatif_verif");
    println!("cargo:rustc-check-cfg=cfg(indicatif_verif)");
    println!("cargo:rerun-if-changed=build.rs");
}
