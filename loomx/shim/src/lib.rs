//! `verif_sync` — the synchronisation facade the schedule flavour of indicatif is built against
//! (`--cfg indicatif_verif`, set only by the mirror package's build script).  Everything is loom's,
//! except `Condvar`, which adds `wait_timeout_while` with a deterministic timeout policy.

use std::sync::atomic::{AtomicUsize, Ordering as StdOrdering};
use std::sync::LockResult;
use std::time::Duration;

pub use loom::sync::{Mutex, MutexGuard, RwLock, RwLockReadGuard, RwLockWriteGuard};

pub mod atomic {
    //! loom's atomics, except that a plain `store` is performed as a `swap`.
    //!
    //! loom 0.7 may order a plain store *between* the read and the write of a concurrent
    //! read-modify-write in modification order (thread A: `fetch_add(1)`; thread B: `store(9)` then
    //! `load()` can yield 1 - a minimal loom program shows it), which no C11 implementation allows
    //! (RMW atomicity).  With every write an RMW the modification order is the execution order, and
    //! both orders of two concurrent writes are still explored - as two schedules.
    pub use loom::sync::atomic::{AtomicBool, AtomicUsize, Ordering};

    macro_rules! wrap {
        ($name:ident, $t:ty) => {
            #[derive(Debug)]
            pub struct $name(loom::sync::atomic::$name);

            impl $name {
                pub fn new(v: $t) -> Self {
                    Self(loom::sync::atomic::$name::new(v))
                }
                pub fn load(&self, o: Ordering) -> $t {
                    self.0.load(o)
                }
                pub fn store(&self, v: $t, o: Ordering) {
                    self.0.swap(v, o);
                }
                pub fn swap(&self, v: $t, o: Ordering) -> $t {
                    self.0.swap(v, o)
                }
                pub fn fetch_add(&self, v: $t, o: Ordering) -> $t {
                    self.0.fetch_add(v, o)
                }
                pub fn fetch_sub(&self, v: $t, o: Ordering) -> $t {
                    self.0.fetch_sub(v, o)
                }
                pub fn compare_exchange(&self, c: $t, n: $t, s: Ordering, f: Ordering) -> Result<$t, $t> {
                    self.0.compare_exchange(c, n, s, f)
                }
            }
        };
    }
    wrap!(AtomicU64, u64);
    wrap!(AtomicU8, u8);
}

pub mod thread {
    pub use loom::thread::{current, spawn, yield_now, JoinHandle, Thread, ThreadId};
}

/// How many of the next timed waits return "timed out" immediately (per execution; reset by the
/// harness at the start of every explored execution).  0 = timeouts never fire (interval = hours).
static TIMEOUT_BUDGET: AtomicUsize = AtomicUsize::new(0);
static TIMEOUTS_FIRED: AtomicUsize = AtomicUsize::new(0);
static TIMED_WAITS: AtomicUsize = AtomicUsize::new(0);

pub fn set_timeout_budget(k: usize) {
    TIMEOUT_BUDGET.store(k, StdOrdering::SeqCst);
    TIMEOUTS_FIRED.store(0, StdOrdering::SeqCst);
    TIMED_WAITS.store(0, StdOrdering::SeqCst);
}

pub fn timeouts_fired() -> usize {
    TIMEOUTS_FIRED.load(StdOrdering::SeqCst)
}

pub fn timed_waits() -> usize {
    TIMED_WAITS.load(StdOrdering::SeqCst)
}

#[derive(Debug)]
pub struct WaitTimeoutResult(bool);

impl WaitTimeoutResult {
    pub fn timed_out(&self) -> bool {
        self.0
    }
}

#[derive(Debug)]
pub struct Condvar {
    inner: loom::sync::Condvar,
}

impl Default for Condvar {
    fn default() -> Self {
        Self::new()
    }
}

impl Condvar {
    pub fn new() -> Self {
        Condvar { inner: loom::sync::Condvar::new() }
    }

    pub fn notify_one(&self) {
        self.inner.notify_one()
    }

    pub fn notify_all(&self) {
        self.inner.notify_all()
    }

    pub fn wait<'a, T>(&self, guard: MutexGuard<'a, T>) -> LockResult<MutexGuard<'a, T>> {
        self.inner.wait(guard)
    }

    pub fn wait_while<'a, T, F>(&self, mut guard: MutexGuard<'a, T>, mut condition: F) -> LockResult<MutexGuard<'a, T>>
    where
        F: FnMut(&mut T) -> bool,
    {
        while condition(&mut *guard) {
            guard = match self.inner.wait(guard) {
                Ok(g) => g,
                Err(e) => e.into_inner(),
            };
        }
        Ok(guard)
    }

    /// A timed wait without a predicate: times out at once while the budget lasts, else blocks
    /// until notified (a notification that came before the wait is lost, as with std).
    pub fn wait_timeout<'a, T>(&self, guard: MutexGuard<'a, T>, _dur: Duration) -> LockResult<(MutexGuard<'a, T>, WaitTimeoutResult)> {
        TIMED_WAITS.fetch_add(1, StdOrdering::SeqCst);
        let left = TIMEOUT_BUDGET.load(StdOrdering::SeqCst);
        if left > 0 {
            TIMEOUT_BUDGET.store(left - 1, StdOrdering::SeqCst);
            TIMEOUTS_FIRED.fetch_add(1, StdOrdering::SeqCst);
            // the wait took time: let the other threads run before this one goes on
            loom::thread::yield_now();
            return Ok((guard, WaitTimeoutResult(true)));
        }
        let guard = match self.inner.wait(guard) {
            Ok(g) => g,
            Err(e) => e.into_inner(),
        };
        Ok((guard, WaitTimeoutResult(false)))
    }

    /// std's contract: waits while `condition` holds, at most `dur`.  Here a wait either times
    /// out at once (while the per-execution budget lasts) or blocks until notified.
    pub fn wait_timeout_while<'a, T, F>(&self, mut guard: MutexGuard<'a, T>, _dur: Duration, mut condition: F) -> LockResult<(MutexGuard<'a, T>, WaitTimeoutResult)>
    where
        F: FnMut(&mut T) -> bool,
    {
        TIMED_WAITS.fetch_add(1, StdOrdering::SeqCst);
        loop {
            if !condition(&mut *guard) {
                return Ok((guard, WaitTimeoutResult(false)));
            }
            let left = TIMEOUT_BUDGET.load(StdOrdering::SeqCst);
            if left > 0 {
                TIMEOUT_BUDGET.store(left - 1, StdOrdering::SeqCst);
                TIMEOUTS_FIRED.fetch_add(1, StdOrdering::SeqCst);
                // the wait took time: let the other threads run before this one goes on
                loom::thread::yield_now();
                return Ok((guard, WaitTimeoutResult(true)));
            }
            guard = match self.inner.wait(guard) {
                Ok(g) => g,
                Err(e) => e.into_inner(),
            };
        }
    }
}
