//! Thread programs and their per-execution oracles.

use crate::clock;
use crate::term::Spy;
use indicatif::style::ProgressTracker;
use indicatif::{MultiProgress, ProgressBar, ProgressDrawTarget, ProgressFinish, ProgressState, ProgressStyle};
use std::collections::HashSet;
use std::hash::{Hash, Hasher};
use std::sync::atomic::{AtomicBool, AtomicU64, Ordering};
use std::sync::{Arc, Mutex};
use std::time::{Duration, Instant};
use verif_sync::thread;

#[derive(Clone, Copy, Debug, PartialEq, Eq, Hash)]
pub enum Call {
    Tick,
    Inc(u64),
    Dec(u64),
    Msg,
    Update,
    Enable,
    /// enable_steady_tick(1 ms) with a clock in which every reading takes 5 ms (a tick takes longer than the interval)
    EnableShort,
    Disable,
    Finish,
    Abandon,
    Println,
    Suspend,
    SuspendWrite,
    CloneDrop,
    IsFinished,
    MpPrintln,
    MpRemove,
    MpSuspend,
    MpSuspendWrite,
    MpAdd,
    MpInsertBefore,
    MpInsertAfter,
    MpClear,
    DropOwn,
    TickB,
    IncB,
    /// reset() of a (possibly finished) bar
    Reset,
    /// the next fallible terminal call fails once
    FaultNext,
    /// yield until the steady-tick thread has ticked once more than it has by now (needs a timed wait
    /// that fires: a no-op when the execution's timeout budget is 0)
    AwaitNextTick,
    /// enable_steady_tick(Duration::MAX)
    EnableMax,
    /// a getter on the bar (panics if the bar's lock is poisoned)
    Getters,
    /// yield until a frame has been painted since this call started (someone else must paint it);
    /// time goes by while waiting (the clock is read once per yield)
    AwaitFrame,
    /// set_style with a plain template (no spinner, no time-dependent key, no custom key), position still 0
    PlainStyle,
    /// wait until a frame has been painted since this call began (by the steady-tick thread: nobody else draws)
    AwaitFirstFrame,
    /// the terminal shows the message set by the last `Msg` call (the frame on screen is the current one)
    ExpectMsgShown,
    /// disable_steady_tick() / tick() through the handle the thread's own handle was cloned from (the
    /// ticker belongs to the bar, whichever handle installed it)
    DisableOrig,
    TickOrig,
    /// one second goes by (200 clock readings of 5 ms)
    ClockBurn,
    /// reset_eta() (leaves the position alone)
    ResetEta,
    /// set_message("a\tb") / set_prefix("p\tq") / set_tab_width(2)
    MsgTab,
    PrefixTab,
    TabWidth2,
    /// set_draw_target(hidden) on bar a / a look at is_hidden() that remembers the terminal call count
    SetHidden,
    ObserveHidden,
    /// set_draw_target(terminal) on bar a / MultiProgress::add(bar a)
    SetTarget,
    MpAddSelf,
    /// a wrapped iterator over two items, driven to exhaustion
    Iter2,
    /// a wrapped reader: one read of three bytes
    Read3,
    /// liveness of the most recently enabled steady ticker: yield until a steady-tick thread has
    /// redrawn the bar since that enable call started
    AwaitTick,
}

#[derive(Clone, Copy, Debug, PartialEq, Eq, Hash)]
pub enum Share {
    Clone,
    /// threads share one `Arc<ProgressBar>` (no clone of the bar itself exists)
    ArcRef,
    /// every thread works on a handle it got from `downgrade().upgrade()`
    Weak,
}

#[derive(Clone, Debug)]
pub struct Program {
    /// bar a draws on a rate-limited target (20 Hz) instead of an unlimited one
    pub hz: bool,
    /// bar a is created with a hidden target and gets its terminal (or its MultiProgress) later,
    /// through `Call::SetTarget` / `Call::MpAddSelf`
    pub start_hidden: bool,
    /// bar a has no length (finish leaves the position where it is)
    pub no_len: bool,
    pub family: &'static str,
    pub multi: bool,
    pub ticker: bool,
    pub share: Share,
    pub threads: Vec<Vec<Call>>,
}

impl Program {
    pub fn describe(&self) -> String {
        format!("{}{}{}{}{} {:?}", if self.start_hidden { "hidden-at-first " } else { "" }, if self.no_len { "no-length " } else { "" }, if self.multi { "multi " } else { "single " }, if self.ticker { "ticker-on " } else { "" }, match self.share { Share::ArcRef => "shared-by-reference", Share::Weak => "upgraded-weak-handles", Share::Clone => "clones" }, self.threads)
    }
    pub fn history(&self) -> Vec<String> {
        let mut v = vec![format!("{}{}{} bar, steady ticker {}, handles shared as {:?}", if self.start_hidden { "created hidden, " } else { "" }, if self.no_len { "length-less " } else { "" }, if self.multi { "member of a 2-bar MultiProgress" } else { "standalone" }, if self.ticker { "enabled before the threads start" } else { "off" }, self.share)];
        for (i, t) in self.threads.iter().enumerate() {
            v.push(format!("T{}: {:?}", i + 1, t));
        }
        v
    }
    pub fn uses_ticker(&self) -> bool {
        self.threads.iter().flatten().any(|c| matches!(c, Call::Enable | Call::EnableShort | Call::EnableMax))
    }
}

#[derive(Default)]
pub struct Obs {
    pub schedules: AtomicU64,
    pub outcomes: Mutex<HashSet<u64>>,
    pub max_ticker_ticks: AtomicU64,
    pub ticker_outlived_finish: AtomicU64,
    pub frames_checked: AtomicU64,
}

fn h<T: Hash>(t: &T) -> u64 {
    let mut s = std::collections::hash_map::DefaultHasher::new();
    t.hash(&mut s);
    s.finish()
}

// ---------------------------------------------------------------------------------------------

pub fn programs_for(family: &str, tier: &str) -> Vec<Program> {
    let thorough = tier == "thorough";
    let mut v = Vec::new();
    match family {
        "C08" => {
            let single: Vec<Call> = vec![Call::Tick, Call::Inc(1), Call::Msg, Call::Update, Call::Enable, Call::Disable, Call::Finish, Call::Println, Call::Suspend, Call::CloneDrop, Call::IsFinished];
            let multi_extra: Vec<Call> = vec![Call::MpPrintln, Call::MpRemove, Call::MpSuspend, Call::MpInsertBefore, Call::MpInsertAfter];
            for multi in [false, true] {
                let mut alpha = single.clone();
                if multi {
                    alpha.extend(multi_extra.iter().copied());
                }
                for ticker in [false, true] {
                    // all unordered pairs of single calls
                    for i in 0..alpha.len() {
                        for j in i..alpha.len() {
                            v.push(Program { hz: false, start_hidden: false, no_len: false, family: "C08", multi, ticker, share: Share::Clone, threads: vec![vec![alpha[i]], vec![alpha[j]]] });
                        }
                    }
                    if thorough {
                        // one thread makes two calls
                        let two: Vec<Call> = vec![Call::Update, Call::Tick, Call::Enable, Call::Disable, Call::Finish, Call::DropOwn];
                        for &a in &two {
                            for &b in &two {
                                for &c in &alpha {
                                    v.push(Program { hz: false, start_hidden: false, no_len: false, family: "C08", multi, ticker, share: Share::Clone, threads: vec![vec![a, b], vec![c]] });
                                }
                            }
                        }
                    }
                }
            }
            // steady tick enabled through a clone, then disabled / ticked by hand through the handle it was cloned from
            for en in [Call::Enable, Call::EnableShort] {
                v.push(Program { hz: false, start_hidden: false, no_len: false, family: "C08", multi: false, ticker: false, share: Share::Clone, threads: vec![vec![en, Call::DisableOrig, Call::Tick]] });
                v.push(Program { hz: false, start_hidden: false, no_len: false, family: "C08", multi: false, ticker: false, share: Share::Clone, threads: vec![vec![en, Call::TickOrig, Call::TickOrig]] });
                v.push(Program { hz: false, start_hidden: false, no_len: false, family: "C08", multi: false, ticker: false, share: Share::Clone, threads: vec![vec![en], vec![Call::DisableOrig]] });
            }
            // the calls that touch the ticker slot, made through handles obtained from a WeakProgressBar
            {
                let slot: Vec<Call> = vec![Call::Tick, Call::Update, Call::Enable, Call::Disable, Call::Finish];
                for ticker in [false, true] {
                    for i in 0..slot.len() {
                        for j in i..slot.len() {
                            v.push(Program { hz: false, start_hidden: false, no_len: false, family: "C08", multi: false, ticker, share: Share::Weak, threads: vec![vec![slot[i]], vec![slot[j]]] });
                        }
                        v.push(Program { hz: false, start_hidden: false, no_len: false, family: "C08", multi: false, ticker, share: Share::Weak, threads: vec![vec![slot[i], Call::Disable]] });
                    }
                }
            }
            // a tick that takes longer than the tick interval (clock advances on every reading)
            for &c in &[Call::Disable, Call::Enable, Call::Finish, Call::DropOwn, Call::Tick, Call::Update] {
                v.push(Program { hz: false, start_hidden: false, no_len: false, family: "C08", multi: false, ticker: false, share: Share::Clone, threads: vec![vec![Call::EnableShort], vec![c]] });
                v.push(Program { hz: false, start_hidden: false, no_len: false, family: "C08", multi: false, ticker: false, share: Share::Clone, threads: vec![vec![Call::EnableShort, c]] });
            }
            // three threads, calls that touch the ticker slot or join
            let slot: Vec<Call> = vec![Call::Update, Call::Tick, Call::Enable, Call::Disable, Call::Finish, Call::DropOwn];
            if thorough {
                for ticker in [false, true] {
                    for i in 0..slot.len() {
                        for j in i..slot.len() {
                            for k in j..slot.len() {
                                v.push(Program { hz: false, start_hidden: false, no_len: false, family: "C08", multi: false, ticker, share: Share::Clone, threads: vec![vec![slot[i]], vec![slot[j]], vec![slot[k]]] });
                            }
                        }
                    }
                }
            } else {
                for &(a, b, c) in &[(Call::Update, Call::Disable, Call::Tick), (Call::Enable, Call::Disable, Call::Finish), (Call::Enable, Call::Enable, Call::DropOwn), (Call::Update, Call::Enable, Call::Finish)] {
                    v.push(Program { hz: false, start_hidden: false, no_len: false, family: "C08", multi: false, ticker: true, share: Share::Clone, threads: vec![vec![a], vec![b], vec![c]] });
                }
            }
            // liveness of a (re-)enabled ticker after histories that let an earlier ticker thread exit on
            // its own: the bar must be redrawn without manual ticks after the last enable call
            for en in [Call::Enable, Call::EnableShort] {
                for hist in [vec![en, Call::AwaitTick], vec![en, Call::Finish, Call::Reset, en, Call::AwaitTick], vec![en, Call::Disable, en, Call::AwaitTick], vec![en, Call::Abandon, Call::Reset, en, Call::AwaitTick], vec![en, en, Call::AwaitTick], vec![en, Call::Reset, en, Call::AwaitTick]] {
                    v.push(Program { hz: false, start_hidden: false, no_len: false, family: "C08", multi: false, ticker: false, share: Share::Clone, threads: vec![hist.clone()] });
                    if en == Call::Enable {
                        v.push(Program { hz: false, start_hidden: false, no_len: false, family: "C08", multi: true, ticker: false, share: Share::Clone, threads: vec![hist] });
                    }
                }
                v.push(Program { hz: false, start_hidden: false, no_len: false, family: "C08", multi: false, ticker: true, share: Share::Clone, threads: vec![vec![Call::Finish, Call::Reset, en, Call::AwaitTick]] });
                // one failed terminal call during a draw of the ticker does not end the ticker
                v.push(Program { hz: false, start_hidden: false, no_len: false, family: "C08", multi: false, ticker: false, share: Share::Clone, threads: vec![vec![Call::FaultNext, en, Call::AwaitTick, Call::AwaitNextTick]] });
                // a fresh bar with a plain template: the ticker paints it although nothing about it has changed yet
                if en == Call::Enable {
                    v.push(Program { hz: false, start_hidden: false, no_len: false, family: "C08", multi: false, ticker: false, share: Share::Clone, threads: vec![vec![Call::PlainStyle, en, Call::AwaitFirstFrame]] });
                    v.push(Program { hz: false, start_hidden: false, no_len: false, family: "C08", multi: true, ticker: false, share: Share::Clone, threads: vec![vec![Call::PlainStyle, en, Call::AwaitFirstFrame]] });
                }
                // disable/replace after finish: the old ticker is really gone (after a reset manual ticks draw again)
                v.push(Program { hz: false, start_hidden: false, no_len: false, family: "C08", multi: false, ticker: false, share: Share::Clone, threads: vec![vec![en, Call::Finish, Call::Disable, Call::Reset, Call::Tick]] });
                // steady tick enabled while the bar is still hidden; it gets its terminal / its MultiProgress afterwards
                v.push(Program { hz: false, start_hidden: true, no_len: false, family: "C08", multi: false, ticker: false, share: Share::Clone, threads: vec![vec![en, Call::SetTarget, Call::AwaitTick]] });
                v.push(Program { hz: false, start_hidden: true, no_len: false, family: "C08", multi: false, ticker: false, share: Share::Clone, threads: vec![vec![en], vec![Call::SetTarget, Call::AwaitTick]] });
                v.push(Program { hz: false, start_hidden: true, no_len: false, family: "C08", multi: true, ticker: false, share: Share::Clone, threads: vec![vec![en, Call::MpAddSelf, Call::AwaitTick]] });
                // (finish and reset stay in one thread: the harness' finish_returned flag is only
                // meaningful when reset() is ordered after finish() by the program itself)
                v.push(Program { hz: false, start_hidden: false, no_len: false, family: "C08", multi: false, ticker: true, share: Share::Clone, threads: vec![vec![Call::Tick], vec![Call::Finish, Call::Reset, en, Call::AwaitTick]] });
            }
        }
        "L07" => {
            let calls: Vec<Call> = vec![Call::Inc(1), Call::Inc(u64::MAX), Call::Dec(1), Call::Dec(3), Call::Inc(5)];
            for share in [Share::Clone, Share::ArcRef] {
                for i in 0..calls.len() {
                    for j in i..calls.len() {
                        v.push(Program { hz: false, start_hidden: false, no_len: false, family: "L07", multi: false, ticker: false, share, threads: vec![vec![calls[i]], vec![calls[j]]] });
                        if thorough || (i == 0 && j == 2) || (i == 1 && j == 3) {
                            v.push(Program { hz: false, start_hidden: false, no_len: false, family: "L07", multi: false, ticker: false, share, threads: vec![vec![calls[i], calls[j]], vec![calls[j], calls[i]]] });
                        }
                    }
                }
                // three threads
                for (n3, &(a, b, c)) in [(Call::Inc(1), Call::Dec(1), Call::Inc(u64::MAX)), (Call::Inc(1), Call::Inc(2), Call::Inc(4)), (Call::Dec(2), Call::Dec(3), Call::Inc(7))].iter().enumerate() {
                    if !thorough && n3 > 0 {
                        continue;
                    }
                    v.push(Program { hz: false, start_hidden: false, no_len: false, family: "L07", multi: false, ticker: false, share, threads: vec![vec![a], vec![b], vec![c]] });
                    if thorough {
                        v.push(Program { hz: false, start_hidden: false, no_len: false, family: "L07", multi: false, ticker: false, share, threads: vec![vec![a, b], vec![b, c], vec![c, a]] });
                    }
                }
            }
            // a bar without a length: finish()/abandon() keep the position, so increments racing with
            // them must survive exactly like increments racing with each other
            for share in [Share::Clone, Share::ArcRef] {
                for fin in [Call::Finish, Call::Abandon] {
                    v.push(Program { hz: false, start_hidden: false, no_len: true, family: "L07", multi: false, ticker: false, share, threads: vec![vec![fin], vec![Call::Inc(1)]] });
                    v.push(Program { hz: false, start_hidden: false, no_len: true, family: "L07", multi: false, ticker: false, share, threads: vec![vec![fin], vec![Call::Inc(1), Call::Dec(3)]] });
                    if thorough {
                        v.push(Program { hz: false, start_hidden: false, no_len: true, family: "L07", multi: false, ticker: false, share, threads: vec![vec![fin], vec![Call::Inc(1)], vec![Call::Inc(4)]] });
                        v.push(Program { hz: false, start_hidden: false, no_len: true, family: "L07", multi: true, ticker: false, share, threads: vec![vec![fin], vec![Call::Inc(1)]] });
                    }
                }
            }
            // reset_eta()/reset leave the position to the increments racing with them
            for share in [Share::Clone, Share::ArcRef] {
                v.push(Program { hz: false, start_hidden: false, no_len: false, family: "L07", multi: false, ticker: false, share, threads: vec![vec![Call::ResetEta], vec![Call::Inc(1)]] });
                v.push(Program { hz: false, start_hidden: false, no_len: false, family: "L07", multi: false, ticker: false, share, threads: vec![vec![Call::ResetEta, Call::Inc(2)], vec![Call::Inc(1), Call::Dec(3)]] });
            }
            // increments while a ticker is installed and while the bar sits in a MultiProgress
            v.push(Program { hz: false, start_hidden: false, no_len: false, family: "L07", multi: true, ticker: false, share: Share::Clone, threads: vec![vec![Call::Inc(1), Call::Inc(2)], vec![Call::Inc(4)]] });
            v.push(Program { hz: false, start_hidden: false, no_len: false, family: "L07", multi: false, ticker: true, share: Share::Clone, threads: vec![vec![Call::Inc(1)], vec![Call::Inc(4), Call::Dec(2)]] });
        }
        "L18" => {
            // a terminal failure while a steady ticker (also one with a huge interval) draws: no panic, no poisoned lock
            for en in [Call::Enable, Call::EnableShort, Call::EnableMax] {
                v.push(Program { hz: false, start_hidden: false, no_len: false, family: "L07", multi: false, ticker: false, share: Share::Clone, threads: vec![vec![Call::FaultNext, en, Call::AwaitTick, Call::Getters, Call::Msg, Call::Getters]] });
                v.push(Program { hz: false, start_hidden: false, no_len: false, family: "L07", multi: true, ticker: false, share: Share::Clone, threads: vec![vec![Call::FaultNext, en, Call::AwaitTick, Call::Getters, Call::MpPrintln, Call::Getters]] });
            }
        }
        "L04" => {
            // finish / drop on a rate-limited MultiProgress while another thread draws with a later clock
            // reading (every reading takes 5 ms): the final state is still painted
            for fin in [Call::Finish, Call::Abandon] {
                for other in [Call::TickB, Call::IncB, Call::Tick, Call::MpPrintln] {
                    v.push(Program { hz: true, start_hidden: false, no_len: false, family: "L02", multi: true, ticker: false, share: Share::Clone, threads: vec![vec![fin], vec![other]] });
                }
            }
        }
        "L05" => {
            // a 1 ms steady ticker on a 20 Hz target while every clock reading takes 5 ms: after a direct
            // update has been painted, the ticker's requests are painted again once the interval has passed.
            // (Clock readings are invisible to loom: the set_message before the second of virtual time
            // gives the explorer a lock to order the start of the ticker thread against.)
            v.push(Program { hz: true, start_hidden: false, no_len: false, family: "L07", multi: false, ticker: false, share: Share::Clone, threads: vec![vec![Call::EnableShort, Call::Msg, Call::AwaitFrame]] });
            v.push(Program { hz: true, start_hidden: false, no_len: false, family: "L07", multi: false, ticker: false, share: Share::Clone, threads: vec![vec![Call::EnableShort, Call::Msg, Call::ClockBurn, Call::Msg, Call::AwaitFrame]] });
            v.push(Program { hz: true, start_hidden: false, no_len: false, family: "L07", multi: false, ticker: false, share: Share::Clone, threads: vec![vec![Call::EnableShort, Call::Msg, Call::ClockBurn, Call::Inc(1), Call::ClockBurn, Call::Msg, Call::AwaitFrame, Call::AwaitFrame]] });
            v.push(Program { hz: true, start_hidden: false, no_len: false, family: "L07", multi: false, ticker: false, share: Share::Clone, threads: vec![vec![Call::EnableShort, Call::AwaitFrame, Call::Inc(1), Call::AwaitFrame]] });
        }
        "L06" => {
            // hiding a member of a visible MultiProgress while another thread looks at it
            for obs in [vec![Call::ObserveHidden], vec![Call::ObserveHidden, Call::ObserveHidden], vec![Call::Tick, Call::ObserveHidden]] {
                v.push(Program { hz: false, start_hidden: false, no_len: false, family: "L07", multi: true, ticker: false, share: Share::Clone, threads: vec![vec![Call::SetHidden], obs.clone()] });
                v.push(Program { hz: false, start_hidden: false, no_len: false, family: "L07", multi: false, ticker: false, share: Share::Clone, threads: vec![vec![Call::SetHidden], obs] });
            }
            v.push(Program { hz: false, start_hidden: false, no_len: false, family: "L07", multi: true, ticker: false, share: Share::Clone, threads: vec![vec![Call::MpRemove], vec![Call::ObserveHidden]] });
            if thorough {
                v.push(Program { hz: false, start_hidden: false, no_len: false, family: "L07", multi: true, ticker: false, share: Share::Clone, threads: vec![vec![Call::SetHidden], vec![Call::ObserveHidden], vec![Call::Inc(1)]] });
            }
        }
        "L16" => {
            // texts with tabs set while another thread changes the tab width
            for t in [Call::MsgTab, Call::PrefixTab] {
                for multi in [false, true] {
                    v.push(Program { hz: false, start_hidden: false, no_len: false, family: "L07", multi, ticker: false, share: Share::Clone, threads: vec![vec![t], vec![Call::TabWidth2]] });
                    v.push(Program { hz: false, start_hidden: false, no_len: false, family: "L07", multi, ticker: false, share: Share::Clone, threads: vec![vec![t, Call::Tick], vec![Call::TabWidth2, Call::Tick]] });
                }
            }
            if thorough {
                v.push(Program { hz: false, start_hidden: false, no_len: false, family: "L07", multi: false, ticker: false, share: Share::Clone, threads: vec![vec![Call::MsgTab], vec![Call::TabWidth2], vec![Call::PrefixTab]] });
            }
        }
        "L17" => {
            // adaptors on clones of one length-less bar (exhausting an iterator finishes the bar, which
            // leaves the position of a length-less bar alone): every transferred item/byte is counted once
            let calls: Vec<Call> = vec![Call::Iter2, Call::Read3, Call::Inc(1)];
            for share in [Share::Clone, Share::ArcRef] {
                for i in 0..calls.len() {
                    for j in i..calls.len() {
                        if calls[i] == Call::Inc(1) && calls[j] == Call::Inc(1) {
                            continue;
                        }
                        v.push(Program { hz: false, start_hidden: false, no_len: true, family: "L07", multi: false, ticker: false, share, threads: vec![vec![calls[i]], vec![calls[j]]] });
                        if thorough {
                            v.push(Program { hz: false, start_hidden: false, no_len: true, family: "L07", multi: false, ticker: false, share, threads: vec![vec![calls[i], calls[j]], vec![calls[j]]] });
                        }
                    }
                }
                if thorough {
                    v.push(Program { hz: false, start_hidden: false, no_len: true, family: "L07", multi: false, ticker: false, share, threads: vec![vec![Call::Iter2], vec![Call::Read3], vec![Call::Iter2]] });
                }
            }
            v.push(Program { hz: false, start_hidden: false, no_len: true, family: "L07", multi: true, ticker: false, share: Share::Clone, threads: vec![vec![Call::Iter2], vec![Call::Read3]] });
        }
        "L02" => {
            let calls: Vec<Call> = vec![Call::Inc(1), Call::Tick, Call::Msg, Call::Finish, Call::DropOwn, Call::MpPrintln, Call::MpRemove, Call::MpAdd, Call::MpClear, Call::IncB, Call::TickB];
            for i in 0..calls.len() {
                for j in i..calls.len() {
                    v.push(Program { hz: false, start_hidden: false, no_len: false, family: "L02", multi: true, ticker: false, share: Share::Clone, threads: vec![vec![calls[i]], vec![calls[j]]] });
                }
            }
            // suspending the whole MultiProgress while another thread updates a member
            for &o in &[Call::Tick, Call::Inc(1), Call::IncB, Call::Finish, Call::MpPrintln] {
                v.push(Program { hz: false, start_hidden: false, no_len: false, family: "L02", multi: true, ticker: false, share: Share::Clone, threads: vec![vec![Call::MpSuspendWrite], vec![o]] });
                v.push(Program { hz: false, start_hidden: false, no_len: false, family: "L02", multi: true, ticker: false, share: Share::Clone, threads: vec![vec![Call::SuspendWrite], vec![o]] });
            }
            let two: Vec<Call> = vec![Call::Inc(1), Call::IncB, Call::Finish, Call::MpPrintln, Call::DropOwn];
            for &a in &two {
                for &b in &two {
                    for &c in &two {
                        if thorough || (a != b) {
                            v.push(Program { hz: false, start_hidden: false, no_len: false, family: "L02", multi: true, ticker: false, share: Share::Clone, threads: vec![vec![a, b], vec![c]] });
                        }
                    }
                }
            }
            // three threads on members of one MultiProgress (two bars): every multiset of single calls
            // (thorough) / the combinations that mix both bars with a structural change (quick)
            let three: Vec<Call> = vec![Call::Inc(1), Call::IncB, Call::Finish, Call::MpPrintln, Call::MpAdd, Call::MpRemove, Call::DropOwn];
            for i in 0..three.len() {
                for j in i..three.len() {
                    for k in j..three.len() {
                        let (a, b, c) = (three[i], three[j], three[k]);
                        let quick_pick = i == 0 && j == 1 && k >= 2;
                        if thorough || quick_pick {
                            v.push(Program { hz: false, start_hidden: false, no_len: false, family: "L02", multi: true, ticker: false, share: Share::Clone, threads: vec![vec![a], vec![b], vec![c]] });
                        }
                    }
                }
            }
        }
        "L01" => {
            // the single-bar half of L03, reported under C01 (frame/log integrity of a standalone bar)
            v = programs_for("L03", tier).into_iter().filter(|p| !p.multi).map(|mut p| { p.family = "L03"; p }).collect();
            // a change made after the bar was finished under a steady ticker is painted (the ticker thread has exited)
            for en in [Call::Enable, Call::EnableShort] {
                v.push(Program { hz: false, start_hidden: false, no_len: false, family: "L03", multi: false, ticker: false, share: Share::Clone, threads: vec![vec![en, Call::Finish, Call::Msg, Call::ExpectMsgShown]] });
            }
        }
        "L03" => {
            let other: Vec<Call> = vec![Call::Tick, Call::Inc(1), Call::Msg, Call::Finish, Call::Println, Call::TickB];
            for multi in [false, true] {
                for ticker in [false, true] {
                    for sus in [Call::SuspendWrite, Call::MpSuspendWrite] {
                        if sus == Call::MpSuspendWrite && !multi {
                            continue;
                        }
                        for &o in &other {
                            if o == Call::TickB && !multi {
                                continue;
                            }
                            v.push(Program { hz: false, start_hidden: false, no_len: false, family: "L03", multi, ticker, share: Share::Clone, threads: vec![vec![sus], vec![o]] });
                            if thorough {
                                v.push(Program { hz: false, start_hidden: false, no_len: false, family: "L03", multi, ticker, share: Share::Clone, threads: vec![vec![sus, Call::Tick], vec![o, o]] });
                            }
                        }
                    }
                }
            }
        }
        _ => {}
    }
    // inserting next to an anchor that another thread removes is a caller error (the anchor must be a
    // member: `insert_before` panics on a removed anchor also without any concurrency)
    v.retain(|p: &Program| {
        let all: Vec<Call> = p.threads.iter().flatten().copied().collect();
        !(all.contains(&Call::MpRemove) && all.iter().any(|c| matches!(c, Call::MpInsertBefore | Call::MpInsertAfter)))
    });
    // loom supports 5 threads per execution (main included); every enable_steady_tick spawns one
    v.retain(|p: &Program| 1 + p.threads.len() + p.ticker as usize + p.threads.iter().flatten().filter(|c| matches!(c, Call::Enable | Call::EnableShort | Call::EnableMax)).count() <= 5);
    v
}

// ---------------------------------------------------------------------------------------------

struct Shared {
    main_id: Mutex<Option<String>>,
    worker_ids: Mutex<Vec<String>>,
    ticker_ticks: AtomicU64,
    worker_tracker_ticks: AtomicU64,
    finish_returned: AtomicBool,
    disable_returned: AtomicBool,
    violation: Mutex<Option<String>>,
    ticks_after_finish: AtomicU64,
    /// steady-tick thread ticks seen when the latest enable_steady_tick call started
    enable_mark: AtomicU64,
    frames_at_enable: AtomicU64,
    /// 1 + terminal calls made when another thread saw is_hidden() == true (0 = never seen)
    hidden_seen_at: AtomicU64,
    /// timed waits allowed to fire in this execution
    timeouts: AtomicU64,
}

#[derive(Clone)]
struct Probe {
    sh: Arc<Shared>,
    check_disable: bool,
}

fn tid() -> String {
    format!("{:?}", thread::current().id())
}

impl ProgressTracker for Probe {
    fn clone_box(&self) -> Box<dyn ProgressTracker> {
        Box::new(self.clone())
    }
    fn tick(&mut self, _: &ProgressState, _: Instant) {
        let me = tid();
        let is_main = self.sh.main_id.lock().unwrap().as_deref() == Some(me.as_str());
        let is_worker = self.sh.worker_ids.lock().unwrap().contains(&me);
        if is_main || is_worker {
            if is_worker {
                self.sh.worker_tracker_ticks.fetch_add(1, Ordering::SeqCst);
            }
            return;
        }
        // a tick made by a steady-tick thread
        self.sh.ticker_ticks.fetch_add(1, Ordering::SeqCst);
        if self.sh.finish_returned.load(Ordering::SeqCst) {
            self.sh.ticks_after_finish.fetch_add(1, Ordering::SeqCst);
            *self.sh.violation.lock().unwrap() = Some("ticker: the steady-tick thread ticked the bar after finish() had returned".into());
        }
        if self.check_disable && self.sh.disable_returned.load(Ordering::SeqCst) {
            *self.sh.violation.lock().unwrap() = Some("ticker: the steady-tick thread ticked the bar after disable_steady_tick() had returned".into());
        }
    }
    fn reset(&mut self, _: &ProgressState, _: Instant) {}
    fn write(&self, _: &ProgressState, _: &mut dyn std::fmt::Write) {}
}

struct World {
    spy: Spy,
    mp: Option<MultiProgress>,
    /// the only handle of bar a that the harness keeps (threads clone it or share it by reference)
    a: Arc<ProgressBar>,
    b: Option<ProgressBar>,
}

fn style(sh: &Arc<Shared>, check_disable: bool) -> ProgressStyle {
    ProgressStyle::with_template("{prefix}:{pos} {msg}{k}").unwrap().tick_chars("0123456789 ").with_key("k", Probe { sh: sh.clone(), check_disable })
}

fn do_call(c: Call, pb: &ProgressBar, w: &World, sh: &Shared) {
    if std::env::var("VLOOM_DEBUG").is_ok() {
        eprintln!("[{}] call {:?} (position before: {})", tid(), c, pb.position());
    }
    match c {
        Call::Tick => pb.tick(),
        Call::Inc(x) => pb.inc(x),
        Call::Dec(x) => pb.dec(x),
        Call::Msg => pb.set_message("m"),
        Call::Update => pb.update(|s| s.set_pos(3)),
        Call::Enable => {
            sh.frames_at_enable.store(w.spy.flushes(), Ordering::SeqCst);
            sh.enable_mark.store(sh.ticker_ticks.load(Ordering::SeqCst), Ordering::SeqCst);
            pb.enable_steady_tick(Duration::from_secs(3600))
        }
        Call::EnableShort => {
            clock::set_step_ns(5_000_000);
            sh.enable_mark.store(sh.ticker_ticks.load(Ordering::SeqCst), Ordering::SeqCst);
            pb.enable_steady_tick(Duration::from_millis(1))
        }
        Call::AwaitNextTick => {
            if sh.timeouts.load(Ordering::SeqCst) > 0 {
                let mark = sh.ticker_ticks.load(Ordering::SeqCst);
                let mut spins = 0;
                while sh.ticker_ticks.load(Ordering::SeqCst) == mark {
                    thread::yield_now();
                    spins += 1;
                    if spins > 300 {
                        oracle("ticker: the steady-tick thread stopped ticking although the bar is unfinished and steady tick is enabled (300 yields, a timed wait was allowed to fire)".into());
                    }
                }
            }
        }
        Call::FaultNext => {
            let mut st = w.spy.st();
            let k = st.fallible_calls;
            st.fault = crate::term::Fault::Once(k);
        }
        Call::EnableMax => {
            sh.enable_mark.store(sh.ticker_ticks.load(Ordering::SeqCst), Ordering::SeqCst);
            pb.enable_steady_tick(Duration::MAX)
        }
        Call::Getters => {
            let _ = (pb.position(), pb.message(), pb.is_finished(), pb.length());
        }
        Call::AwaitFrame => {
            let mark = w.spy.flushes();
            let mut spins = 0;
            while w.spy.flushes() == mark {
                let _ = Instant::now();
                thread::yield_now();
                spins += 1;
                if spins > 300 {
                    oracle("staleness: redraw requests of the steady ticker arriving long after the last painted frame are not painted (300 yields, 1.5 s of virtual time)".into());
                }
            }
        }
        Call::PlainStyle => pb.set_style(ProgressStyle::with_template("{prefix}:{pos}/{len}").unwrap()),
        Call::AwaitFirstFrame => {
            let mark = sh.frames_at_enable.load(Ordering::SeqCst);
            let mut spins = 0;
            while w.spy.flushes() == mark {
                thread::yield_now();
                spins += 1;
                if spins > 60 {
                    oracle("ticker: steady tick was enabled on an unfinished bar but no steady-tick thread ever paints it (60 yields; plain template, position still at its initial value)".into());
                }
            }
        }
        Call::ExpectMsgShown => {
            let doc = w.spy.doc();
            if !doc.iter().any(|r| r.starts_with("a:") && r.contains(" m")) {
                oracle(format!("frame: set_message returned but the terminal still shows an earlier frame: {:?}", doc));
            }
        }
        Call::ClockBurn => {
            for _ in 0..200 {
                let _ = Instant::now();
            }
        }
        Call::ResetEta => pb.reset_eta(),
        Call::MsgTab => pb.set_message("a\tb"),
        Call::PrefixTab => pb.set_prefix("p\tq"),
        Call::TabWidth2 => pb.set_tab_width(2),
        Call::SetHidden => pb.set_draw_target(ProgressDrawTarget::hidden()),
        Call::ObserveHidden => {
            if pb.is_hidden() {
                sh.hidden_seen_at.store(w.spy.calls() + 1, Ordering::SeqCst);
            }
            // the terminal call counter is invisible to loom: touch the MultiProgress lock as well, so
            // that this observation is ordered both ways against a repaint of the MultiProgress
            if let Some(mp) = w.mp.as_ref() {
                let _ = mp.is_hidden();
            }
        }
        Call::SetTarget => pb.set_draw_target(ProgressDrawTarget::term_like(w.spy.boxed())),
        Call::MpAddSelf => {
            let _ = w.mp.as_ref().unwrap().add(pb.clone());
        }
        Call::Iter2 => {
            for _ in pb.wrap_iter(0..2) {}
        }
        Call::Read3 => {
            use std::io::Read;
            let mut buf = [0u8; 3];
            let _ = pb.wrap_read(&[1u8, 2, 3][..]).read(&mut buf);
        }
        Call::Reset => {
            // a steady-tick thread never ticks a finished bar (it checks under the state lock), so a
            // tick seen from here on happens after reset() took effect
            sh.finish_returned.store(false, Ordering::SeqCst);
            pb.reset();
        }
        Call::AwaitTick => {
            let mark = sh.enable_mark.load(Ordering::SeqCst);
            let mut spins = 0;
            while sh.ticker_ticks.load(Ordering::SeqCst) == mark {
                thread::yield_now();
                spins += 1;
                if spins > 60 {
                    oracle("ticker: steady tick was enabled on an unfinished bar but no steady-tick thread ever redraws it (yielded 60 times with nothing else runnable making a tick)".into());
                }
            }
        }
        Call::Disable => {
            pb.disable_steady_tick();
            sh.disable_returned.store(true, Ordering::SeqCst);
        }
        Call::DisableOrig => {
            w.a.disable_steady_tick();
            sh.disable_returned.store(true, Ordering::SeqCst);
        }
        Call::TickOrig => w.a.tick(),
        Call::Finish => {
            pb.finish();
            sh.finish_returned.store(true, Ordering::SeqCst);
        }
        Call::Abandon => {
            pb.abandon();
            sh.finish_returned.store(true, Ordering::SeqCst);
        }
        Call::Println => pb.println("P"),
        Call::Suspend => pb.suspend(|| ()),
        Call::SuspendWrite => {
            let spy = w.spy.clone();
            // the closure is user code: give the scheduler a chance before and after its write
            pb.suspend(|| {
                thread::yield_now();
                spy.raw_write_line("OUT");
                thread::yield_now();
            })
        }
        Call::CloneDrop => drop(pb.clone()),
        Call::IsFinished => {
            let _ = pb.is_finished();
        }
        Call::MpPrintln => {
            let _ = w.mp.as_ref().unwrap().println("L");
        }
        Call::MpRemove => w.mp.as_ref().unwrap().remove(pb),
        Call::MpSuspend => w.mp.as_ref().unwrap().suspend(|| ()),
        Call::MpSuspendWrite => {
            let spy = w.spy.clone();
            w.mp.as_ref().unwrap().suspend(|| {
                thread::yield_now();
                spy.raw_write_line("OUT");
                thread::yield_now();
            })
        }
        Call::MpAdd => {
            let n = w.mp.as_ref().unwrap().add(ProgressBar::with_draw_target(Some(9), ProgressDrawTarget::hidden()).with_style(ProgressStyle::with_template("{prefix}:{pos}").unwrap()).with_prefix("c"));
            n.tick();
            n.finish_and_clear();
        }
        Call::MpInsertBefore | Call::MpInsertAfter => {
            let nb = ProgressBar::with_draw_target(Some(9), ProgressDrawTarget::hidden()).with_style(ProgressStyle::with_template("{prefix}:{pos}").unwrap()).with_prefix("c");
            let n = if c == Call::MpInsertBefore { w.mp.as_ref().unwrap().insert_before(pb, nb) } else { w.mp.as_ref().unwrap().insert_after(pb, nb) };
            n.tick();
            n.finish_and_clear();
        }
        Call::MpClear => {
            let _ = w.mp.as_ref().unwrap().clear();
        }
        Call::DropOwn => {}
        Call::TickB => w.b.as_ref().unwrap().tick(),
        Call::IncB => w.b.as_ref().unwrap().inc(1),
    }
    if std::env::var("VLOOM_DEBUG").is_ok() {
        eprintln!("[{}] done {:?} (position after: {})", tid(), c, pb.position());
    }
}

loom::lazy_static! {
    /// Touched on every clock reading while a program with a rate-limited target runs: the interposed
    /// clock is plain memory, so the explorer would otherwise never reorder two readings.
    static ref CLOCK_PROBE: loom::sync::atomic::AtomicUsize = loom::sync::atomic::AtomicUsize::new(0);
}

fn clock_hook() {
    CLOCK_PROBE.fetch_add(1, Ordering::SeqCst);
}

fn oracle(msg: String) -> ! {
    panic!("ORACLE: {msg}");
}

pub fn execute(p: &Program, timeouts: usize, obs: &Obs) {
    clock::set_read_hook(None);
    verif_sync::set_timeout_budget(timeouts);
    clock::set_step_ns(0);
    clock::reset();
    let sh = Arc::new(Shared {
        main_id: Mutex::new(Some(tid())),
        worker_ids: Mutex::new(vec![]),
        ticker_ticks: AtomicU64::new(0),
        worker_tracker_ticks: AtomicU64::new(0),
        finish_returned: AtomicBool::new(false),
        disable_returned: AtomicBool::new(false),
        violation: Mutex::new(None),
        ticks_after_finish: AtomicU64::new(0),
        enable_mark: AtomicU64::new(0),
        frames_at_enable: AtomicU64::new(0),
        hidden_seen_at: AtomicU64::new(0),
        timeouts: AtomicU64::new(timeouts as u64),
    });
    let has_enable_call = p.uses_ticker();
    let spy = Spy::new(30, 12, false);
    spy.st().frames = Some(Vec::new());
    let len_a = if p.no_len { None } else { Some(9) };
    let mk = |name: &str, sh: &Arc<Shared>| ProgressBar::with_draw_target(len_a, ProgressDrawTarget::hidden()).with_style(style(sh, !has_enable_call)).with_prefix(name.to_string()).with_finish(ProgressFinish::AndLeave);
    let world = if p.multi {
        let mp = MultiProgress::with_draw_target(if p.hz { ProgressDrawTarget::term_like_with_hz(spy.boxed(), 255) } else { ProgressDrawTarget::term_like(spy.boxed()) });
        let a = if p.start_hidden { mk("a", &sh) } else { mp.add(mk("a", &sh)) };
        let b = mp.add(ProgressBar::with_draw_target(Some(9), ProgressDrawTarget::hidden()).with_style(ProgressStyle::with_template("{prefix}:{pos}").unwrap()).with_prefix("b").with_finish(ProgressFinish::AndLeave));
        a.tick();
        b.tick();
        World { spy: spy.clone(), mp: Some(mp), a: Arc::new(a), b: Some(b) }
    } else {
        let a = ProgressBar::with_draw_target(len_a, if p.start_hidden { ProgressDrawTarget::hidden() } else if p.hz { ProgressDrawTarget::term_like_with_hz(spy.boxed(), 20) } else { ProgressDrawTarget::term_like(spy.boxed()) }).with_style(style(&sh, !has_enable_call)).with_prefix("a").with_finish(ProgressFinish::AndLeave);
        a.tick();
        World { spy: spy.clone(), mp: None, a: Arc::new(a), b: None }
    };
    if p.ticker {
        world.a.enable_steady_tick(Duration::from_secs(3600));
    }
    if p.hz && p.multi {
        clock::set_step_ns(5_000_000);
        clock::set_read_hook(Some(clock_hook));
    }
    let world = Arc::new(world);
    let shared_ref: Arc<ProgressBar> = world.a.clone();
    let mut handles = Vec::new();
    for calls in p.threads.iter().cloned() {
        let w = world.clone();
        let sh2 = sh.clone();
        let own: Option<ProgressBar> = match p.share {
            Share::Clone => Some((*world.a).clone()),
            Share::Weak => Some(world.a.downgrade().upgrade().expect("the bar is alive")),
            Share::ArcRef => None,
        };
        let by_ref = shared_ref.clone();
        handles.push(thread::spawn(move || {
            sh2.worker_ids.lock().unwrap().push(tid());
            let mut own = own;
            for c in calls {
                if c == Call::DropOwn {
                    own = None;
                    continue;
                }
                let pb: &ProgressBar = match own.as_ref() {
                    Some(o) => o,
                    None => &by_ref,
                };
                do_call(c, pb, &w, &sh2);
            }
        }));
    }
    for hd in handles {
        if hd.join().is_err() {
            oracle("a worker thread panicked".into());
        }
    }
    if let Some(v) = sh.violation.lock().unwrap().clone() {
        oracle(v);
    }
    // rate-limited MultiProgress under a clock that moves with every reading: once finish()/abandon() has
    // returned, the screen shows the bar's final position
    if p.hz && p.multi && p.threads.iter().flatten().any(|c| matches!(c, Call::Finish | Call::Abandon)) {
        let doc = spy.doc();
        let want = format!("a:{}", world.a.position());
        if !doc.iter().any(|r| r.starts_with(&want)) {
            oracle(format!("final-state: finish()/abandon() returned but its final frame was not painted :: {:?}, position {}", doc, world.a.position()));
        }
    }
    // a bar that another thread has seen hidden makes no terminal call afterwards
    let seen = sh.hidden_seen_at.load(Ordering::SeqCst);
    if seen > 0 && spy.calls() + 1 != seen {
        oracle(format!("hidden: terminal operations were made after is_hidden() had returned true :: {} calls when it was seen hidden, {} when all threads were done", seen - 1, spy.calls()));
    }
    // texts set while another thread changes the tab width end up expanded with the final width
    if p.threads.iter().flatten().any(|c| matches!(c, Call::MsgTab | Call::PrefixTab)) {
        let tw = if p.threads.iter().flatten().any(|c| *c == Call::TabWidth2) { 2 } else { 8 };
        let all: Vec<Call> = p.threads.iter().flatten().copied().collect();
        if all.contains(&Call::MsgTab) && world.a.message() != format!("a{}b", " ".repeat(tw)) {
            oracle(format!("tab: message() is not expanded with the current tab width {tw} :: {:?}", world.a.message()));
        }
        if all.contains(&Call::PrefixTab) && world.a.prefix() != format!("p{}q", " ".repeat(tw)) {
            oracle(format!("tab: prefix() is not expanded with the current tab width {tw} :: {:?}", world.a.prefix()));
        }
    }
    let all: Vec<Call> = p.threads.iter().flatten().copied().collect();
    let ticker_ticks = sh.ticker_ticks.load(Ordering::SeqCst);
    obs.max_ticker_ticks.fetch_max(ticker_ticks, Ordering::Relaxed);
    // per-execution oracles by family
    let pos = world.a.position();
    match p.family {
        "C08" => {
            // (iv) manual ticks are inert while a ticker installed before the threads started stays installed
            let only_manual = all.iter().all(|c| matches!(c, Call::Tick | Call::Inc(_) | Call::IsFinished | Call::CloneDrop));
            if p.ticker && only_manual && sh.worker_tracker_ticks.load(Ordering::SeqCst) != 0 {
                oracle(format!("ticker: manual tick()/inc() advanced the bar although a steady ticker was installed :: {} worker ticks", sh.worker_tracker_ticks.load(Ordering::SeqCst)));
            }
            // (v) the ticker ticks at most once per wake-up
            let enables = all.iter().filter(|c| matches!(c, Call::Enable | Call::EnableShort)).count() as u64 + p.ticker as u64;
            if ticker_ticks > (timeouts as u64 + 1) * enables.max(1) && enables > 0 {
                oracle(format!("ticker: more ticks than wake-ups :: {ticker_ticks} ticks, {} timeouts fired, {enables} tickers", timeouts));
            }
            // after disable_steady_tick() (with no later enable) a manual tick() reaches the bar again
            for t in &p.threads {
                if let Some(d) = t.iter().rposition(|c| matches!(c, Call::Disable | Call::DisableOrig)) {
                    let later = &t[d + 1..];
                    if p.threads.len() == 1 && later.contains(&Call::Tick) && !later.iter().any(|c| matches!(c, Call::Enable | Call::EnableShort | Call::EnableMax | Call::Finish | Call::Abandon)) && sh.worker_tracker_ticks.load(Ordering::SeqCst) == 0 {
                        oracle("ticker: a manual tick() after disable_steady_tick() does not advance the bar (a steady ticker still counts as installed)".into());
                    }
                }
            }
            if enables == 0 && ticker_ticks > 0 {
                oracle("ticker: ticks from a steady-tick thread although steady tick was never enabled".into());
            }
        }
        "L07" => {
            let mut want = 0u64;
            for c in &all {
                match c {
                    Call::Inc(x) => want = want.wrapping_add(*x),
                    Call::Dec(x) => want = want.wrapping_sub(*x),
                    Call::Iter2 => want = want.wrapping_add(2),
                    Call::Read3 => want = want.wrapping_add(3),
                    _ => {}
                }
            }
            if pos != want {
                oracle(format!("position: concurrent inc/dec lost or duplicated :: position {pos}, expected {want}"));
            }
        }
        _ => {}
    }
    // frames: every painted frame shows, per bar, one row with a position the bar really had, never older than before
    let frames = spy.st().frames.take().unwrap_or_default();
    if p.family == "L02" || p.family == "L03" {
        let mut last: std::collections::HashMap<char, u64> = Default::default();
        for (fi, (_, doc)) in frames.iter().enumerate() {
            let mut seen: HashSet<char> = HashSet::new();
            for row in doc {
                let mut ch = row.chars();
                let (Some(name), Some(':')) = (ch.next(), ch.next()) else { continue };
                if !matches!(name, 'a' | 'b' | 'c') {
                    continue;
                }
                if name != 'c' && !seen.insert(name) {
                    oracle(format!("frames: a bar appears twice in one painted frame :: frame #{fi} {:?}", doc));
                }
                let num: String = row[2..].chars().take_while(|c| c.is_ascii_digit()).collect();
                if let Ok(v) = num.parse::<u64>() {
                    // finish sets the position to the length: with two finishes around an inc the real
                    // state sequence itself is not monotone (9, 10, 9)
                    let monotone = !(name == 'a' && all.iter().filter(|c| matches!(c, Call::Finish | Call::DropOwn)).count() >= 2 && all.iter().any(|c| matches!(c, Call::Inc(_))));
                    if name != 'c' && monotone {
                        if let Some(&prev) = last.get(&name) {
                            if v < prev {
                                oracle(format!("frames: a painted frame shows an older state than an earlier frame :: bar {name}: {prev} then {v}, frame #{fi} {:?}; all frames {:?}", doc, frames.iter().map(|f| f.1.clone()).collect::<Vec<_>>()));
                            }
                        }
                        last.insert(name, v);
                    }
                }
            }
        }
        obs.frames_checked.fetch_add(frames.len() as u64, Ordering::Relaxed);
    }
    // final frame shows the final states: finish what is left (abandon keeps the position), read the screen
    let a_fin_pos;
    {
        if !world.a.is_finished() {
            world.a.abandon();
        }
        a_fin_pos = world.a.position();
        if let Some(b) = world.b.as_ref() {
            if !b.is_finished() {
                b.abandon();
            }
        }
    }
    let doc = spy.doc();
    if p.family == "L02" || p.family == "L03" {
        let removed = all.contains(&Call::MpRemove);
        let a_rows: Vec<&String> = doc.iter().filter(|r| r.starts_with("a:")).collect();
        if !removed {
            if a_rows.len() != 1 {
                oracle(format!("final: bar a is not shown exactly once after all threads finished :: {:?}", doc));
            }
            let num: String = a_rows[0][2..].chars().take_while(|c| c.is_ascii_digit()).collect();
            if num.parse::<u64>().ok() != Some(a_fin_pos) {
                oracle(format!("final: last frame does not show the final position :: {:?}, position {a_fin_pos}", doc));
            }
        }
        if let Some(b) = world.b.as_ref() {
            let b_rows: Vec<&String> = doc.iter().filter(|r| r.starts_with("b:")).collect();
            if b_rows.len() != 1 || !b_rows[0].starts_with(&format!("b:{}", b.position())) {
                oracle(format!("final: bar b is not shown exactly once with its final position :: {:?}", doc));
            }
        }
        // log lines and suspend output: exactly once each, above the live bars
        let want_l = all.iter().filter(|c| matches!(c, Call::MpPrintln)).count();
        let want_p = all.iter().filter(|c| matches!(c, Call::Println)).count();
        let want_out = all.iter().filter(|c| matches!(c, Call::SuspendWrite | Call::MpSuspendWrite)).count();
        let count = |s: &str| doc.iter().filter(|r| r.as_str() == s).count();
        if count("L") != want_l || count("OUT") != want_out || (want_p > 0 && count("P") != want_p) {
            oracle(format!("log: printed lines / suspend output not present exactly once :: {:?} (expected {want_l} L, {want_p} P, {want_out} OUT)", doc));
        }
        if let (Some(last_log), Some(first_bar)) = (doc.iter().rposition(|r| r == "L" || r == "OUT" || r == "P"), doc.iter().position(|r| r.starts_with("a:") || r.starts_with("b:"))) {
            // finished bars are static text, live ones were abandoned just now: only require order when nothing was finished by the program
            if !all.iter().any(|c| matches!(c, Call::Finish | Call::DropOwn | Call::MpRemove | Call::MpClear)) && last_log > first_bar {
                oracle(format!("log: a printed line is below a bar :: {:?}", doc));
            }
        }
    }
    obs.outcomes.lock().unwrap().insert(h(&(pos, &doc, ticker_ticks, frames.len())));
    // everything is dropped here: the last handle goes away, which must stop and join any ticker
    // without a timeout firing (loom reports a deadlock otherwise)
    drop(shared_ref);
    let finish_seen = sh.finish_returned.load(Ordering::SeqCst);
    match Arc::try_unwrap(world) {
        Ok(w) => drop(w),
        Err(_) => oracle("harness: world still shared".into()),
    }
    if finish_seen && p.ticker {
        obs.ticker_outlived_finish.fetch_add(1, Ordering::Relaxed);
    }
    clock::set_read_hook(None);
}

/// Checks over all executions of one program.
pub fn aggregate_check(p: &Program, _timeouts: usize, obs: &Obs) -> Option<String> {
    if p.family == "C08" && p.ticker {
        // liveness as far as loom can express it: in at least one schedule the steady-tick thread ticked
        let finishes_first = p.threads.iter().flatten().any(|c| matches!(c, Call::Finish | Call::Disable | Call::Enable | Call::EnableShort | Call::DropOwn));
        if obs.max_ticker_ticks.load(Ordering::Relaxed) == 0 && !finishes_first {
            return Some("ORACLE: ticker: the steady-tick thread never redrew the bar in any schedule".into());
        }
    }
    None
}
