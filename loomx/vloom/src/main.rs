//! vloom — exhaustive interleavings (loom, preemption-bounded DPOR) of the real indicatif crate,
//! built against the `verif_sync` facade (DESIGN.md §2.6).
//!
//!   vloom <family> --tier quick|thorough           parent: every thread program in its own child process
//!   vloom <family> --run <index> --pb N --timeouts K   child: explore one program, print one JSON line
//!
//! families: C08 (deadlock / ticker lifecycle), L07 (concurrent inc/dec, merged into C07's
//! evidence), L02 (MultiProgress frames under schedules, merged into C02's), L03 (suspend vs
//! concurrent updates, merged into C03's).

#[path = "../../../harness/src/clock.rs"]
mod clock;
#[path = "../../../harness/src/term.rs"]
mod term;
#[path = "../../../harness/src/util.rs"]
mod util;

mod programs;

use programs::{programs_for, Program};
use serde_json::{json, Value};
use std::collections::BTreeMap;
use std::io::Write;
use std::process::{Command, Stdio};

const VERIF: &str = "/verif";

fn main() {
    let args: Vec<String> = std::env::args().collect();
    if args.len() < 2 {
        eprintln!("usage: vloom <C08|L07|L17|L02|L03|L01> --tier quick|thorough | --run <i> --pb N --timeouts K");
        std::process::exit(2);
    }
    let family = args[1].clone();
    let mut tier = match std::env::var("VERIF_TIER").ok().as_deref() {
        Some("thorough") => "thorough".to_string(),
        _ => "quick".to_string(),
    };
    let (mut run, mut pb, mut timeouts, mut merge, mut list) = (None::<usize>, 2usize, 0usize, None::<String>, false);
    let mut replay: Option<String> = None;
    let mut i = 2;
    while i < args.len() {
        match args[i].as_str() {
            "--tier" => {
                tier = args[i + 1].clone();
                i += 1;
            }
            "--run" => {
                run = Some(args[i + 1].parse().unwrap());
                i += 1;
            }
            "--pb" => {
                pb = args[i + 1].parse().unwrap();
                i += 1;
            }
            "--timeouts" => {
                timeouts = args[i + 1].parse().unwrap();
                i += 1;
            }
            "--merge-into" => {
                merge = Some(args[i + 1].clone());
                i += 1;
            }
            "--list" => list = true,
            "--replay" => {
                replay = Some(args[i + 1].clone());
                i += 1;
            }
            o => {
                eprintln!("unknown argument {o}");
                std::process::exit(2);
            }
        }
        i += 1;
    }
    clock::assert_owned();
    if let Some(path) = replay {
        // re-explore the one thread program recorded in a violation file
        let v: Value = serde_json::from_str(&std::fs::read_to_string(&path).expect("replay file")).expect("replay json");
        let hist: Vec<String> = v["history"].as_array().map(|a| a.iter().map(|x| x.as_str().unwrap_or("").to_string()).collect()).unwrap_or_default();
        let cfg = v["config"].as_str().unwrap_or("");
        let k: usize = cfg.split("timeouts that fire: ").nth(1).and_then(|r| r.split(',').next()).and_then(|x| x.trim().parse().ok()).unwrap_or(0);
        let pbound: usize = cfg.split("preemption bound ").nth(1).and_then(|x| x.trim().parse().ok()).unwrap_or(2);
        for fam in ["C08", "L01", "L02", "L03", "L07", "L17", "L06", "L16", "L05", "L04", "L18"] {
            for t in ["quick", "thorough"] {
                let progs = programs_for(fam, t);
                if let Some(p) = progs.iter().find(|p| p.history() == hist) {
                    println!("program: {}\npreemption bound {pbound}, timeouts that fire {k}", p.describe());
                    if !child(p, pbound, k, 2_000_000) {
                        println!("VIOLATION property={} replay={}", family_property(fam), path);
                        std::process::exit(1);
                    }
                    return;
                }
            }
        }
        eprintln!("no thread program matches the recorded one");
        std::process::exit(2);
    }
    let progs = programs_for(&family, &tier);
    if list {
        for (i, p) in progs.iter().enumerate() {
            println!("{i}: {}", p.describe());
        }
        return;
    }
    if let Some(idx) = run {
        let _ = child(&progs[idx], pb, timeouts, if tier == "thorough" { 1_500_000 } else { 250_000 });
        return;
    }
    std::process::exit(parent(&family, &tier, &progs, merge));
}

fn child(p: &Program, pb: usize, timeouts: usize, cap_secs: u64) -> bool {
    util::silence_panics();
    // loom failures can end in a double panic (abort): leave the first message on stderr for the parent
    let prev = std::panic::take_hook();
    std::panic::set_hook(Box::new(move |info| {
        let msg = if let Some(s) = info.payload().downcast_ref::<&str>() { s.to_string() } else if let Some(s) = info.payload().downcast_ref::<String>() { s.clone() } else { String::new() };
        eprintln!("PANIC-MESSAGE {}", msg.replace('\n', " "));
        prev(info);
    }));
    let t0 = clock::wall_s();
    let obs = std::sync::Arc::new(programs::Obs::default());
    let obs2 = obs.clone();
    let p2 = p.clone();
    let r = util::catch(move || {
        let mut b = loom::model::Builder::new();
        b.preemption_bound = Some(pb);
        b.max_branches = 200_000;
        // (loom's max_duration reads Instant::now(), which is the frozen virtual clock here)
        b.max_permutations = Some(cap_secs as usize);
        b.check(move || {
            obs2.schedules.fetch_add(1, std::sync::atomic::Ordering::Relaxed);
            programs::execute(&p2, timeouts, &obs2);
        });
    });
    let out = match r {
        Ok(()) => {
            let aggregate = programs::aggregate_check(p, timeouts, &obs);
            json!({
                "ok": aggregate.is_none(),
                "failure": aggregate,
                "schedules": obs.schedules.load(std::sync::atomic::Ordering::Relaxed),
                "outcomes": obs.outcomes.lock().unwrap().len(),
                "max_ticker_ticks": obs.max_ticker_ticks.load(std::sync::atomic::Ordering::Relaxed),
                "ticker_outlived_finish": obs.ticker_outlived_finish.load(std::sync::atomic::Ordering::Relaxed),
                "frames_checked": obs.frames_checked.load(std::sync::atomic::Ordering::Relaxed),
                "wall_s": clock::wall_s() - t0,
                "capped": obs.schedules.load(std::sync::atomic::Ordering::Relaxed) >= cap_secs,
            })
        }
        Err(msg) => json!({
            "ok": false,
            "failure": msg,
            "schedules": obs.schedules.load(std::sync::atomic::Ordering::Relaxed),
            "outcomes": obs.outcomes.lock().unwrap().len(),
            "wall_s": clock::wall_s() - t0,
        }),
    };
    println!("RESULT {}", out);
    out["ok"].as_bool().unwrap_or(false)
}

fn failure_class(msg: &str) -> String {
    let m = msg.to_lowercase();
    if m.contains("deadlock") {
        "deadlock: no thread can make progress".into()
    } else if let Some(i) = msg.find("ORACLE: ") {
        let rest = &msg[i + 8..];
        let end = rest.find(" ::").unwrap_or(rest.len().min(120));
        format!("oracle: {}", &rest[..end])
    } else if m.contains("exceeded maximum number of branches") || m.contains("max_branches") || (m.contains("execution.rs") && m.contains("overflow")) {
        // 200 000 scheduling points in ONE execution of a program of two or three public calls:
        // some thread loops without ever blocking or terminating
        "livelock: a thread keeps running without blocking or terminating (branch limit of one execution exceeded)".into()
    } else {
        format!("panic: {}", util::panic_class(msg))
    }
}

fn parent(family: &str, tier: &str, progs: &[Program], merge: Option<String>) -> i32 {
    let t0 = clock::wall_s();
    let exe = std::env::current_exe().unwrap();
    let pb = if tier == "thorough" { 3 } else { 2 };
    let ks: Vec<usize> = if family == "C08" { if tier == "thorough" { vec![0, 1, 2] } else { vec![0, 1] } } else if family == "L05" || family == "L18" { vec![1_000_000] } else { vec![0] };
    // job list
    let mut jobs: Vec<(usize, usize)> = Vec::new();
    for (i, p) in progs.iter().enumerate() {
        for &k in &ks {
            if k > 0 && !p.ticker && !p.uses_ticker() {
                continue;
            }
            jobs.push((i, k));
        }
    }
    let maxpar = 16;
    let mut running: Vec<(usize, usize, std::process::Child)> = Vec::new();
    let mut results: Vec<(usize, usize, Result<Value, String>)> = Vec::new();
    let mut next = 0;
    let spawn = |i: usize, k: usize| {
        Command::new(&exe)
            .arg(family)
            .arg("--tier")
            .arg(tier)
            .arg("--run")
            .arg(i.to_string())
            .arg("--pb")
            .arg(if tier == "quick" && progs[i].threads.len() >= 3 && family != "C08" { (pb - 1).to_string() } else { pb.to_string() })
            .arg("--timeouts")
            .arg(k.to_string())
            .stdout(Stdio::piped())
            .stderr(Stdio::piped())
            .spawn()
            .expect("spawn child")
    };
    let collect = |i: usize, k: usize, c: std::process::Child| -> (usize, usize, Result<Value, String>) {
        let o = c.wait_with_output().expect("wait");
        let so = String::from_utf8_lossy(&o.stdout).to_string();
        let se = String::from_utf8_lossy(&o.stderr).to_string();
        if let Some(line) = so.lines().find(|l| l.starts_with("RESULT ")) {
            if let Ok(v) = serde_json::from_str::<Value>(&line[7..]) {
                return (i, k, Ok(v));
            }
        }
        // an abort inside loom: the first panic message tells what loom found
        if let Some(line) = se.lines().find(|l| l.starts_with("PANIC-MESSAGE ")) {
            let msg = line[14..].to_string();
            if msg.to_lowercase().contains("deadlock") || msg.contains("ORACLE: ") {
                return (i, k, Ok(json!({"ok": false, "failure": msg, "schedules": 0, "outcomes": 0})));
            }
        }
        let tail: String = se.lines().rev().take(8).collect::<Vec<_>>().into_iter().rev().collect::<Vec<_>>().join(" | ");
        (i, k, Err(format!("child died ({:?}): {}", o.status, tail)))
    };
    while next < jobs.len() || !running.is_empty() {
        while next < jobs.len() && running.len() < maxpar {
            let (i, k) = jobs[next];
            running.push((i, k, spawn(i, k)));
            next += 1;
        }
        // collect whichever child has finished (no head-of-line blocking behind a long program)
        let mut done = None;
        for (idx, r) in running.iter_mut().enumerate() {
            if let Ok(Some(_)) = r.2.try_wait() {
                done = Some(idx);
                break;
            }
        }
        match done {
            Some(idx) => {
                let (i, k, c) = running.remove(idx);
                results.push(collect(i, k, c));
            }
            None => std::thread::sleep(std::time::Duration::from_millis(5)),
        }
    }

    // classify
    let known = load_known(if family == "C08" { "C08" } else { family_property(family) });
    let (mut schedules, mut programs_ok, mut outcomes_total, mut vacuous, mut frames) = (0u64, 0u64, 0u64, 0u64, 0u64);
    let mut max_ticks = 0u64;
    let mut outlived = 0u64;
    let mut classes: BTreeMap<String, (u64, Value)> = BTreeMap::new();
    let mut machinery: Vec<String> = Vec::new();
    let mut samples: Vec<Value> = Vec::new();
    let mut capped: Vec<String> = Vec::new();
    for (i, k, r) in &results {
        let p = &progs[*i];
        match r {
            Err(e) => {
                // an abort inside loom (double panic): confirm by running once more
                let (_, _, again) = collect(*i, *k, spawn(*i, *k));
                match again {
                    Ok(v) if !v["ok"].as_bool().unwrap_or(false) => {
                        let msg = v["failure"].as_str().unwrap_or("").to_string();
                        let class = failure_class(&msg);
                        let e2 = classes.entry(class.clone()).or_insert((0, json!({"property": family_property(family), "class": class, "config": format!("timeouts that fire: {k}, preemption bound {pb}"), "history": p.history(), "detail": msg})));
                        e2.0 += 1;
                    }
                    _ => machinery.push(format!("program #{i} ({}) k={k}: {e}", p.describe())),
                }
            }
            Ok(v) => {
                schedules += v["schedules"].as_u64().unwrap_or(0);
                outcomes_total += v["outcomes"].as_u64().unwrap_or(0);
                frames += v["frames_checked"].as_u64().unwrap_or(0);
                max_ticks = max_ticks.max(v["max_ticker_ticks"].as_u64().unwrap_or(0));
                outlived += v["ticker_outlived_finish"].as_u64().unwrap_or(0);
                if v["capped"].as_bool().unwrap_or(false) {
                    capped.push(format!("{} (k={k}): stopped after {} schedules", p.describe(), v["schedules"]));
                }
                if v["ok"].as_bool().unwrap_or(false) {
                    programs_ok += 1;
                    if v["outcomes"].as_u64().unwrap_or(0) <= 1 && v["schedules"].as_u64().unwrap_or(0) > 1 {
                        vacuous += 1;
                    }
                    if samples.len() < 6 && (i % 37 == 0) {
                        samples.push(json!({"program": p.describe(), "timeouts": k, "schedules": v["schedules"], "distinct_outcomes": v["outcomes"]}));
                    }
                } else {
                    let msg = v["failure"].as_str().unwrap_or("").to_string();
                    let class = failure_class(&msg);
                    let e = classes.entry(class.clone()).or_insert((0, json!({"property": family_property(family), "class": class, "config": format!("timeouts that fire: {k}, preemption bound {pb}"), "history": p.history(), "detail": msg})));
                    e.0 += 1;
                }
            }
        }
    }
    if samples.is_empty() {
        if let Some((i, k, Ok(v))) = results.iter().find(|r| r.2.is_ok()) {
            samples.push(json!({"program": progs[*i].describe(), "timeouts": k, "schedules": v["schedules"], "distinct_outcomes": v["outcomes"]}));
        }
    }
    let mut known_hit = Vec::new();
    let mut new_v = Vec::new();
    for (class, (n, w)) in &classes {
        if let Some(k) = known.iter().find(|k| &k.0 == class) {
            known_hit.push((k.0.clone(), k.1.clone(), *n));
        } else {
            new_v.push((w.clone(), *n));
        }
    }
    let wall = clock::wall_s() - t0;
    let n_viol: u64 = new_v.iter().map(|v| v.1).sum();
    let coverage = json!({
        "evaluations": schedules,
        "distinct_nontrivial": outcomes_total,
        "rule": format!("every thread program of the family (list: vloom {family} --list) is explored by loom on the real crate built against verif_sync: all interleavings at lock/condvar/atomic/spawn/join granularity up to {pb} preemptions (DPOR-reduced), with timed waits that never fire and (C08) with the first k fire immediately; evaluations = complete executions; distinct_nontrivial = sum over programs of distinct observed outcomes (final getters x frames); a program with one outcome from many schedules is counted under programs_with_single_outcome"),
        "samples": samples,
        "states": outcomes_total.max(1),
        "transitions": schedules.max(1),
        "traces_validated_against_impl": schedules,
        "programs": jobs.len(),
        "programs_passed": programs_ok,
        "programs_with_single_outcome": vacuous,
        "preemption_bound": pb,
        "preemption_bound_note": "quick tier: three-thread programs outside C08 run with one preemption less",
        "timeouts_that_fire": ks,
        "frames_checked": frames,
        "max_ticker_ticks_observed": max_ticks,
        "schedules_in_which_the_ticker_thread_outlived_finish": outlived,
        "known_findings": known_hit.iter().map(|k| json!({"class": k.0, "what": k.1, "instances": k.2})).collect::<Vec<_>>(),
        "violation_classes": new_v.iter().map(|v| json!({"class": v.0["class"], "instances": v.1})).collect::<Vec<_>>(),
        "machinery_errors": machinery,
        "caps_hit": capped,
        "exhaustive": machinery.is_empty() && capped.is_empty(),
    });
    let prop = family_property(family);
    let so = std::io::stdout();
    let mut so = so.lock();
    for k in &known_hit {
        let _ = writeln!(so, "KNOWN-FINDING: property={} {} [class={} instances={}]", prop, k.1, k.0, k.2);
    }
    let mut code = 0;
    std::fs::create_dir_all(format!("{VERIF}/replays")).unwrap();
    for (w, n) in &new_v {
        let h = {
            use std::hash::{Hash, Hasher};
            let mut hh = std::collections::hash_map::DefaultHasher::new();
            w.to_string().hash(&mut hh);
            hh.finish()
        };
        let path = format!("{VERIF}/replays/{}-loom-{:016x}.json", prop, h);
        std::fs::write(&path, serde_json::to_string_pretty(w).unwrap() + "\n").unwrap();
        let _ = writeln!(so, "VIOLATION property={} replay={}", prop, path);
        let _ = writeln!(so, "  class={} instances={} program={} detail={}", w["class"], n, w["history"], w["detail"].as_str().unwrap_or("").chars().take(300).collect::<String>());
        code = 1;
    }
    for m in &machinery {
        let _ = writeln!(so, "MACHINERY-ERROR: {}", m);
        if code == 0 {
            code = 2;
        }
    }
    let _ = writeln!(so, "{family} {tier} (loom): programs={} passed={} schedules={} outcomes={} single-outcome={} known={} violations={} wall={:.1}s", jobs.len(), programs_ok, schedules, outcomes_total, vacuous, known_hit.len(), n_viol, wall);

    let seed: i64 = std::env::var("VERIF_SEED").ok().and_then(|s| s.parse().ok()).unwrap_or(0);
    match merge {
        None => {
            let ev = json!({
                "property_id": prop,
                "tier": tier,
                "seed": seed,
                "level": "model_checking",
                "coverage": coverage,
                "assumptions": [
                    "loom explores sequentially consistent interleavings plus the C11 outcomes of the crate's atomics; Arc/Weak reference counts stay std and are not scheduling points (every Arc operation in the crate is bracketed by lock operations that are)",
                    "timed condvar waits either never fire (interval = hours) or the first k fire immediately (interval = 1 ms); real timing is not modelled",
                    "virtual clock frozen; terminal = in-memory model"
                ],
                "wall_s": (wall * 1000.0).round() / 1000.0,
                "violations": n_viol,
            });
            // a family that only contributes the schedule part of another property's check must not
            // replace that property's evidence when it is run on its own
            let path = if family == prop { format!("{VERIF}/evidence/{prop}.json") } else { format!("{VERIF}/loomx/target/standalone-{family}.json") };
            std::fs::create_dir_all(format!("{VERIF}/evidence")).unwrap();
            std::fs::write(path, serde_json::to_string_pretty(&ev).unwrap() + "\n").unwrap();
        }
        Some(path) => {
            // merge into the evidence written by the sequential engine for the same property
            if let Ok(text) = std::fs::read_to_string(&path) {
                if let Ok(mut ev) = serde_json::from_str::<Value>(&text) {
                    ev["coverage"]["loom"] = coverage;
                    let v0 = ev["violations"].as_u64().unwrap_or(0);
                    ev["violations"] = json!(v0 + n_viol);
                    let w0 = ev["wall_s"].as_f64().unwrap_or(0.0);
                    ev["wall_s"] = json!(((w0 + wall) * 1000.0).round() / 1000.0);
                    if let Some(a) = ev["assumptions"].as_array_mut() {
                        a.push(json!("schedule part: loom on the real crate built against verif_sync (see coverage.loom)"));
                    }
                    let _ = std::fs::write(&path, serde_json::to_string_pretty(&ev).unwrap() + "\n");
                }
            }
        }
    }
    code
}

fn family_property(f: &str) -> &'static str {
    match f {
        "C08" => "C08",
        "L07" => "C07",
        "L17" => "C17",
        "L04" => "C04",
        "L18" => "C18",
        "L05" => "C05",
        "L06" => "C06",
        "L16" => "C16",
        "L02" => "C02",
        "L03" => "C03",
        "L01" => "C01",
        _ => "C08",
    }
}

fn load_known(id: &str) -> Vec<(String, String)> {
    let mut v = Vec::new();
    let text = std::fs::read_to_string(format!("{VERIF}/known_findings.txt")).unwrap_or_default();
    for line in text.lines() {
        let line = line.trim();
        let Some(rest) = line.strip_prefix("known: ") else { continue };
        let Some(rest) = rest.strip_prefix(&format!("property={id} ")) else { continue };
        let Some(rest) = rest.strip_prefix("class=") else { continue };
        let (class, what) = rest.split_once(" :: ").unwrap_or((rest, ""));
        v.push((class.trim().to_string(), what.trim().to_string()));
    }
    v
}
